//! Reference reader for context JSON: what a document *means* for a given scheme, independent of the
//! engine's deserializers. Doubles as the `valid_for` validator of DESIGN §5/C14.

use crate::jdoc::J;
use crate::model::{ListState, MType, MValue, ModelCtx, SetVal};
use crate::wgen::{ListKind, SchemeSpec};
use std::collections::{BTreeMap, BTreeSet};

fn int_literal(s: &str) -> Option<i64> {
    let digits = s.strip_prefix('-').unwrap_or(s);
    if digits.is_empty() || !digits.bytes().all(|b| b.is_ascii_digit()) || s == "-0" {
        return None;
    }
    s.parse::<i64>().ok()
}

/// `Some(v)` iff `j` is a valid encoding of a value of type `ty`.
pub fn ref_value(ty: &MType, j: &J) -> Option<MValue> {
    match (ty, j) {
        (MType::Bool, J::Bool(b)) => Some(MValue::Bool(*b)),
        (MType::Int, J::Num(n)) => int_literal(n).map(MValue::Int),
        (MType::Ip, J::Str(s)) => s.parse().ok().map(MValue::Ip),
        (MType::Bytes, J::Str(s)) => Some(MValue::Bytes(s.as_bytes().to_vec())),
        (MType::Bytes, J::Arr(a)) => {
            let mut out = Vec::new();
            for e in a {
                match e {
                    J::Num(n) => {
                        let v = int_literal(n)?;
                        if !(0..=255).contains(&v) {
                            return None;
                        }
                        out.push(v as u8);
                    }
                    _ => return None,
                }
            }
            Some(MValue::Bytes(out))
        }
        (MType::Array(t), J::Arr(a)) => {
            let mut out = Vec::new();
            for e in a {
                out.push(ref_value(t, e)?);
            }
            Some(MValue::Array((**t).clone(), out))
        }
        (MType::Map(t), J::Obj(m)) => {
            let mut out = BTreeMap::new();
            for (k, e) in m {
                out.insert(k.as_bytes().to_vec(), ref_value(t, e)?);
            }
            Some(MValue::Map((**t).clone(), out))
        }
        (MType::Map(t), J::Arr(a)) => {
            let mut out = BTreeMap::new();
            for pair in a {
                let J::Arr(p) = pair else { return None };
                if p.len() != 2 {
                    return None;
                }
                let MValue::Bytes(k) = ref_value(&MType::Bytes, &p[0])? else { return None };
                out.insert(k, ref_value(t, &p[1])?);
            }
            Some(MValue::Map((**t).clone(), out))
        }
        _ => None,
    }
}

fn ref_type(j: &J) -> Option<MType> {
    match j {
        J::Str(s) => match s.as_str() {
            "Bool" => Some(MType::Bool),
            "Int" => Some(MType::Int),
            "Ip" => Some(MType::Ip),
            "Bytes" => Some(MType::Bytes),
            _ => None,
        },
        J::Obj(m) if m.len() == 1 => {
            let inner = ref_type(&m[0].1)?;
            match m[0].0.as_str() {
                "Array" => Some(MType::arr(inner)),
                "Map" => Some(MType::map(inner)),
                _ => None,
            }
        }
        _ => None,
    }
}

#[derive(Debug, Clone, PartialEq)]
pub enum Expect {
    /// must be accepted and leave exactly this state
    Ok(ModelCtx),
    /// must be rejected
    Err(String),
    /// the reference takes no position (stated why)
    Either(String),
}

/// Apply a context document to `start`, member by member in document order.
pub fn ref_apply(spec: &SchemeSpec, start: &ModelCtx, doc: &J) -> Expect {
    let J::Obj(members) = doc else {
        return Expect::Err("top level is not an object".into());
    };
    let mut m = start.clone();
    for (k, val) in members {
        if k == "$lists" {
            let J::Arr(entries) = val else {
                return Expect::Err("$lists is not an array".into());
            };
            for e in entries {
                let J::Obj(em) = e else {
                    return Expect::Err("$lists entry is not an object".into());
                };
                if em.len() != 2 || em[0].0 != "type" || em[1].0 != "data" {
                    if em.iter().any(|(k, _)| k != "type" && k != "data") {
                        return Expect::Err("unknown member in $lists entry".into());
                    }
                    return Expect::Either("$lists entry members not in (type, data) order".into());
                }
                let Some(ty) = ref_type(&em[0].1) else {
                    return Expect::Err("bad or over-deep list type".into());
                };
                if ty.depth() > 32 {
                    return Expect::Err("over-deep list type".into());
                }
                let Some(idx) = spec.list_index(&ty) else {
                    return Expect::Err(format!("no list for type {}", ty.short()));
                };
                match spec.lists[idx].1 {
                    ListKind::Set => {
                        let J::Obj(sets) = &em[1].1 else {
                            return Expect::Err("set list data is not an object".into());
                        };
                        let mut st = ListState::new();
                        for (name, vals) in sets {
                            let J::Arr(vals) = vals else {
                                return Expect::Err("set is not an array".into());
                            };
                            let mut s = BTreeSet::new();
                            for v in vals {
                                let J::Str(enc) = v else {
                                    return Expect::Err("set member is not a string".into());
                                };
                                match SetVal::decode(enc) {
                                    Some(sv) => {
                                        let fits = matches!(
                                            (&sv, &ty),
                                            (SetVal::Int(_), MType::Int) | (SetVal::Ip(_), MType::Ip) | (SetVal::Bytes(_), MType::Bytes) | (SetVal::Other(_), _)
                                        );
                                        if !fits {
                                            return Expect::Err("set member of the wrong kind".into());
                                        }
                                        s.insert(sv);
                                    }
                                    None => return Expect::Err("undecodable set member".into()),
                                }
                            }
                            st.insert(name.clone(), s);
                        }
                        m.lists[idx] = Some(st);
                    }
                    _ => {
                        // built-in always / never matchers: unit-like structs; the reference only knows the
                        // serializer's own encoding
                        if em[1].1 != J::Obj(Vec::new()) {
                            return Expect::Either("non-canonical data for a built-in list".into());
                        }
                    }
                }
            }
        } else {
            let Some(idx) = spec.field_index(k) else {
                return Expect::Err(format!("unknown field {k:?}"));
            };
            match ref_value(&spec.fields[idx].1, val) {
                Some(v) => m.values[idx] = Some(v),
                None => return Expect::Err(format!("value of field {k:?} is not a valid {}", spec.fields[idx].1.short())),
            }
        }
    }
    Expect::Ok(m)
}
