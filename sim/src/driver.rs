//! Driver: worker processes, aggregation, minimisation, replay files, evidence, exit codes.

use crate::kernel::{self, Mode, RunRecord, Violation};
use crate::rng;
use serde_json::{Value, json};
use std::collections::{BTreeMap, BTreeSet};
use std::io::{BufRead, BufReader, Write};
use std::process::{Command, Stdio};
use std::time::Instant;

#[derive(Clone, Copy, PartialEq, Eq, Debug)]
pub enum Tier {
    Quick,
    Thorough,
}

impl Tier {
    pub fn parse(s: &str) -> Tier {
        match s {
            "thorough" => Tier::Thorough,
            _ => Tier::Quick,
        }
    }
    pub fn name(self) -> &'static str {
        match self {
            Tier::Quick => "quick",
            Tier::Thorough => "thorough",
        }
    }
}

pub struct RunCtx {
    pub tier: Tier,
    pub run: u64,
    pub seed: u64,
    /// this worker process was started with WIREFILTER_USE_AVX2=0
    pub scalar_worker: bool,
    /// this worker compiles / evaluates the run's objects in reverse order (WFSIM_REVERSE=1): paired with a
    /// forward worker on the same run indices, so results that depend on order or process history show up
    pub reverse_order: bool,
    pub want_sample: bool,
}

pub struct PropDef {
    pub id: &'static str,
    pub engine: &'static str,
    pub level: &'static str,
    pub rule: &'static str,
    pub runs_quick: u64,
    pub runs_thorough: u64,
    /// run indices below this are directed scenarios (first tape choice = index+1)
    pub directed: u32,
    pub env_groups: bool,
    pub run: fn(&RunCtx) -> Result<(), Violation>,
    pub real: &'static [&'static str],
    pub stub: &'static [&'static str],
    pub assumptions: &'static [&'static str],
    /// counters that must be non-zero (reach probes); checked by the self-check in the driver
    pub required_probes: &'static [&'static str],
    /// optional extra phase run by the driver after the simulated runs (e.g. Miri); returns violations
    pub extra: Option<fn(Tier, u64) -> ExtraResult>,
}

#[derive(Default)]
pub struct ExtraResult {
    pub violations: Vec<(Violation, Value)>,
    pub coverage: BTreeMap<String, Value>,
    pub harness_error: Option<String>,
}

pub fn exe() -> std::path::PathBuf {
    std::env::current_exe().expect("current_exe")
}

fn verif_dir() -> std::path::PathBuf {
    // /verif/target/release/wfsim -> /verif
    if let Ok(d) = std::env::var("VERIF_DIR") {
        return d.into();
    }
    let e = exe();
    e.parent()
        .and_then(|p| p.parent())
        .and_then(|p| p.parent())
        .map(|p| p.to_path_buf())
        .unwrap_or_else(|| "/verif".into())
}

/// Where evidence and replay files go: /verif, unless the run targets another checkout (WF_OUT_DIR).
fn out_dir() -> std::path::PathBuf {
    match std::env::var("WF_OUT_DIR") {
        Ok(d) => d.into(),
        Err(_) => verif_dir(),
    }
}

/// Execute one run in this process.
pub fn execute(prop: &PropDef, ctx: &RunCtx, mode: Mode, tracing: bool) -> RunRecord {
    kernel::begin_run(mode, tracing);
    let r = std::panic::catch_unwind(std::panic::AssertUnwindSafe(|| (prop.run)(ctx)));
    match r {
        Ok(Ok(())) => {}
        Ok(Err(v)) => kernel::fail(v),
        Err(p) => {
            // a panic escaping to the run root on the worker main thread: engine code panicked outside
            // any catch of the harness (harness bugs also land here; the detail says where)
            let msg = kernel::panic_message(&*p);
            kernel::fail(Violation::new(
                &format!("{}/uncaught-panic", prop.id),
                crate::seams::panic_class(&msg),
                format!("panic reached the run root: {msg}"),
            ));
        }
    }
    kernel::end_run()
}

fn tape_values(t: &[(&'static str, u32, u32)]) -> Vec<u32> {
    t.iter().map(|x| x.2).collect()
}

fn tape_json(t: &[(&'static str, u32, u32)]) -> Value {
    Value::Array(t.iter().map(|(l, n, v)| json!([l, n, v])).collect())
}

fn forced_for(prop: &PropDef, run: u64) -> Vec<u32> {
    if prop.directed == 0 {
        // no scenario choice at the head of the tape: nothing to force
        Vec::new()
    } else if run < prop.directed as u64 {
        vec![run as u32 + 1]
    } else {
        vec![0]
    }
}

// ------------------------------------------------------------------ worker

pub fn worker_main(prop: &PropDef, args: &[String]) {
    let tier = Tier::parse(&args[0]);
    let seed: u64 = args[1].parse().unwrap();
    let first: u64 = args[2].parse().unwrap();
    let stride: u64 = args[3].parse().unwrap();
    let count: u64 = args[4].parse().unwrap();
    let cpu: usize = args[5].parse().unwrap();
    let want_samples: usize = args[6].parse().unwrap();
    let deadline_s: f64 = args[7].parse().unwrap();
    kernel::pin_to_cpu(cpu);
    crate::seams::install_process_hooks();
    let scalar_worker = matches!(
        std::env::var("WIREFILTER_USE_AVX2").as_deref(),
        Ok("0") | Ok("no") | Ok("false")
    );
    let reverse_order = std::env::var_os("WFSIM_REVERSE").is_some();
    let out = std::io::stdout();
    let start = Instant::now();
    let mut evaluations = 0u64;
    let mut nontrivial: BTreeSet<u64> = BTreeSet::new();
    let mut scheds: BTreeSet<u64> = BTreeSet::new();
    let mut switch_sigs: BTreeSet<u64> = BTreeSet::new();
    let mut counters: BTreeMap<&'static str, u64> = BTreeMap::new();
    let mut steps = 0u64;
    let mut switches = 0u64;
    let mut samples: Vec<Value> = Vec::new();
    let mut log_digest = 0u64;
    let mut i = first;
    let mut stopped_early = false;
    while i < count {
        if i >= prop.directed as u64 && start.elapsed().as_secs_f64() > deadline_s {
            stopped_early = true;
            break;
        }
        {
            let mut o = out.lock();
            let _ = writeln!(o, "S {i}");
            let _ = o.flush();
        }
        let ctx = RunCtx {
            tier,
            run: i,
            seed,
            scalar_worker,
            reverse_order,
            want_sample: samples.len() < want_samples && (i >= prop.directed as u64 || samples.is_empty()),
        };
        let rec = execute(
            prop,
            &ctx,
            Mode::Search {
                seed: rng::mix(seed, prop.id, i),
                forced: forced_for(prop, i),
            },
            false,
        );
        evaluations += 1;
        steps += rec.steps;
        switches += rec.switches;
        for (k, v) in &rec.counters {
            *counters.entry(k).or_insert(0) += v;
        }
        if rec.nontrivial {
            nontrivial.insert(rec.tape_hash);
        }
        if rec.switches > 0 {
            scheds.insert(rec.sched_hash);
            switch_sigs.insert(rec.switch_sig);
        }
        // commutative digest: independent of how runs are partitioned over workers
        log_digest = log_digest.wrapping_add(rng::fnv_u64(rng::fnv_u64(rng::fnv_u64(rng::FNV_OFFSET, i), rec.tape_hash), rec.sched_hash));
        if let Some(d) = rec.result_digest {
            let mut o = out.lock();
            let _ = writeln!(o, "D {i} {d:016x}");
        }
        if std::env::var_os("WFSIM_DUMP").is_some() {
            eprintln!("H {i} {:016x} {:016x} {}", rec.tape_hash, rec.sched_hash, rec.steps);
        }
        if let Some(s) = rec.sample {
            if samples.len() < want_samples {
                samples.push(s);
            }
        }
        if let Some(v) = &rec.violation {
            let line = json!({"run": i, "invariant": v.invariant, "class": v.class, "detail": v.detail,
                "scalar": scalar_worker, "tape": tape_values(&rec.tape)});
            let mut o = out.lock();
            let _ = writeln!(o, "V {line}");
            let _ = o.flush();
        }
        i += stride;
    }
    let summary = json!({
        "evaluations": evaluations,
        "nontrivial": nontrivial.iter().collect::<Vec<_>>(),
        "scheds": scheds.iter().collect::<Vec<_>>(),
        "switch_sigs": switch_sigs.iter().collect::<Vec<_>>(),
        "counters": counters,
        "steps": steps,
        "switches": switches,
        "samples": samples,
        "scalar": scalar_worker,
        "simd_active": wirefilter::verif::simd_active(),
        "log_digest": format!("{log_digest:016x}"),
        "stopped_early": stopped_early,
    });
    let mut o = out.lock();
    let _ = writeln!(o, "E {summary}");
    let _ = o.flush();
}

// ------------------------------------------------------------------ eval (one tape, fresh process)

pub fn eval_main(prop: &PropDef, args: &[String]) {
    let tier = Tier::parse(&args[0]);
    let file = &args[1];
    let tracing = args.iter().any(|a| a == "--trace");
    let v: Value = serde_json::from_str(&std::fs::read_to_string(file).expect("read tape file"))
        .expect("tape file json");
    crate::seams::install_process_hooks();
    let scalar_worker = matches!(
        std::env::var("WIREFILTER_USE_AVX2").as_deref(),
        Ok("0") | Ok("no") | Ok("false")
    );
    let run = v["run"].as_u64().unwrap_or(0);
    let seed = v["seed"].as_u64().unwrap_or(1);
    let ctx = RunCtx {
        tier,
        run,
        seed,
        scalar_worker,
        reverse_order: std::env::var_os("WFSIM_REVERSE").is_some(),
        want_sample: false,
    };
    let mode = match v.get("tape").and_then(|t| t.as_array()) {
        Some(t) => Mode::Replay {
            tape: t
                .iter()
                .map(|x| {
                    if let Some(a) = x.as_array() {
                        a[2].as_u64().unwrap_or(0) as u32
                    } else {
                        x.as_u64().unwrap_or(0) as u32
                    }
                })
                .collect(),
        },
        None => Mode::Search {
            seed: rng::mix(seed, prop.id, run),
            forced: forced_for(prop, run),
        },
    };
    let rec = execute(prop, &ctx, mode, tracing);
    let out = json!({
        "signature": rec.violation.as_ref().map(|v| v.signature()),
        "invariant": rec.violation.as_ref().map(|v| v.invariant.clone()),
        "class": rec.violation.as_ref().map(|v| v.class.clone()),
        "detail": rec.violation.as_ref().map(|v| v.detail.clone()),
        "log_hash": format!("{:016x}", rng::fnv_u64(rec.tape_hash, rec.sched_hash)),
        "tape": tape_json(&rec.tape),
        "trace": rec.trace,
        "steps": rec.steps,
        "result_digest": rec.result_digest.map(|d| format!("{d:016x}")),
    });
    println!("R {out}");
}

/// `wfsim history <ID> <tier> <seed> <i1,i2,...,in>`: execute these runs, in this order, in ONE process (as a worker
/// would) and print the result digest of the last one. Used to confirm and replay results that depend on what the
/// process had executed before.
pub fn history_main(prop: &PropDef, args: &[String]) {
    let tier = Tier::parse(&args[0]);
    let seed: u64 = args[1].parse().unwrap();
    let runs: Vec<u64> = args[2].split(',').filter_map(|x| x.parse().ok()).collect();
    crate::seams::install_process_hooks();
    let scalar_worker = matches!(std::env::var("WIREFILTER_USE_AVX2").as_deref(), Ok("0") | Ok("no") | Ok("false"));
    let reverse_order = std::env::var_os("WFSIM_REVERSE").is_some();
    let mut last = None;
    let mut last_violation: Option<Violation> = None;
    for i in runs {
        let ctx = RunCtx { tier, run: i, seed, scalar_worker, reverse_order, want_sample: false };
        let rec = execute(prop, &ctx, Mode::Search { seed: rng::mix(seed, prop.id, i), forced: forced_for(prop, i) }, false);
        last = rec.result_digest;
        last_violation = rec.violation;
    }
    println!("H {}", last.map(|d| format!("{d:016x}")).unwrap_or_else(|| "none".into()));
    match last_violation {
        Some(v) => println!("HV {} :: {}", v.signature(), v.detail.replace('\n', " ")),
        None => println!("HV none"),
    }
}

/// Signature of the violation (if any) the LAST run of `runs` reports when all of them are executed in one process.
fn history_violation(prop: &PropDef, tier: Tier, seed: u64, scalar: bool, reverse: bool, runs: &[u64]) -> Option<(String, String)> {
    let list = runs.iter().map(|r| r.to_string()).collect::<Vec<_>>().join(",");
    let mut cmd = Command::new(exe());
    // one malloc arena: with the baton serialising the threads, the allocation sequence - and so which freed block a
    // later allocation lands on - is then a function of the run history, not of which arena a new thread was handed
    cmd.env("MALLOC_ARENA_MAX", "1");
    cmd.arg("history").arg(prop.id).arg(tier.name()).arg(seed.to_string()).arg(list);
    if scalar {
        cmd.env("WIREFILTER_USE_AVX2", "0");
    } else {
        cmd.env_remove("WIREFILTER_USE_AVX2");
    }
    if reverse {
        cmd.env("WFSIM_REVERSE", "1");
    } else {
        cmd.env_remove("WFSIM_REVERSE");
    }
    let out = cmd.stderr(Stdio::null()).output().ok()?;
    let text = String::from_utf8_lossy(&out.stdout).into_owned();
    let line = text.lines().find_map(|l| l.strip_prefix("HV "))?;
    if line == "none" {
        return None;
    }
    let (sig, detail) = line.split_once(" :: ").unwrap_or((line, ""));
    Some((sig.to_string(), detail.to_string()))
}

fn history_digest(prop: &PropDef, tier: Tier, seed: u64, scalar: bool, reverse: bool, runs: &[u64]) -> Option<String> {
    let list = runs.iter().map(|r| r.to_string()).collect::<Vec<_>>().join(",");
    let mut cmd = Command::new(exe());
    // one malloc arena: with the baton serialising the threads, the allocation sequence - and so which freed block a
    // later allocation lands on - is then a function of the run history, not of which arena a new thread was handed
    cmd.env("MALLOC_ARENA_MAX", "1");
    cmd.arg("history").arg(prop.id).arg(tier.name()).arg(seed.to_string()).arg(list);
    if scalar {
        cmd.env("WIREFILTER_USE_AVX2", "0");
    } else {
        cmd.env_remove("WIREFILTER_USE_AVX2");
    }
    if reverse {
        cmd.env("WFSIM_REVERSE", "1");
    } else {
        cmd.env_remove("WFSIM_REVERSE");
    }
    let out = cmd.stderr(Stdio::null()).output().ok()?;
    String::from_utf8_lossy(&out.stdout).lines().find_map(|l| l.strip_prefix("H ").map(|s| s.trim().to_string()))
}

struct EvalOut {
    signature: Option<String>,
    detail: String,
    log_hash: String,
    tape: Value,
    trace: Vec<String>,
    died: Option<String>,
    result_digest: Option<String>,
}

fn eval_tape(prop: &PropDef, tier: Tier, scalar: bool, run: u64, seed: u64, tape: Option<&[u32]>, trace: bool) -> EvalOut {
    eval_tape_logged(prop, tier, scalar, run, seed, tape, trace, None)
}

/// Re-generate a run that killed its worker, logging every tape value unbuffered; returns the tape prefix
/// up to the point of death.
fn recover_tape_of_dead_run(prop: &PropDef, tier: Tier, scalar: bool, run: u64, seed: u64) -> Option<Vec<u32>> {
    let dir = verif_dir().join("target").join("tmp");
    let _ = std::fs::create_dir_all(&dir);
    let log = dir.join(format!("wfsim-tapelog-{}-{}.txt", std::process::id(), rng_counter()));
    let _ = std::fs::remove_file(&log);
    let r = eval_tape_logged(prop, tier, scalar, run, seed, None, false, Some(&log));
    let text = std::fs::read_to_string(&log).ok();
    let _ = std::fs::remove_file(&log);
    r.died.as_ref()?;
    Some(text?.lines().filter_map(|l| l.trim().parse().ok()).collect())
}

#[allow(clippy::too_many_arguments)]
fn eval_tape_logged(prop: &PropDef, tier: Tier, scalar: bool, run: u64, seed: u64, tape: Option<&[u32]>, trace: bool, tape_log: Option<&std::path::Path>) -> EvalOut {
    let dir = verif_dir().join("target").join("tmp");
    let _ = std::fs::create_dir_all(&dir);
    let path = dir.join(format!("wfsim-eval-{}-{}.json", std::process::id(), rng_counter()));
    let mut doc = json!({"run": run, "seed": seed});
    if let Some(t) = tape {
        doc["tape"] = json!(t);
    }
    std::fs::write(&path, doc.to_string()).expect("write tape file");
    let mut cmd = Command::new(exe());
    // one malloc arena: with the baton serialising the threads, the allocation sequence - and so which freed block a
    // later allocation lands on - is then a function of the run history, not of which arena a new thread was handed
    cmd.env("MALLOC_ARENA_MAX", "1");
    cmd.arg("eval").arg(prop.id).arg(tier.name()).arg(&path);
    if trace {
        cmd.arg("--trace");
    }
    if scalar {
        cmd.env("WIREFILTER_USE_AVX2", "0");
    } else {
        cmd.env_remove("WIREFILTER_USE_AVX2");
    }
    if EVAL_REVERSE.load(std::sync::atomic::Ordering::SeqCst) {
        cmd.env("WFSIM_REVERSE", "1");
    } else {
        cmd.env_remove("WFSIM_REVERSE");
    }
    match tape_log {
        Some(p) => {
            cmd.env("WFSIM_TAPE_LOG", p);
        }
        None => {
            cmd.env_remove("WFSIM_TAPE_LOG");
        }
    }
    let out = cmd.stderr(Stdio::null()).output().expect("spawn eval");
    let _ = std::fs::remove_file(&path);
    let stdout = String::from_utf8_lossy(&out.stdout);
    for line in stdout.lines() {
        if let Some(rest) = line.strip_prefix("R ") {
            if let Ok(v) = serde_json::from_str::<Value>(rest) {
                return EvalOut {
                    signature: v["signature"].as_str().map(|s| s.to_string()),
                    detail: v["detail"].as_str().unwrap_or("").to_string(),
                    log_hash: v["log_hash"].as_str().unwrap_or("").to_string(),
                    tape: v["tape"].clone(),
                    trace: v["trace"]
                        .as_array()
                        .map(|a| a.iter().map(|s| s.as_str().unwrap_or("").to_string()).collect())
                        .unwrap_or_default(),
                    died: None,
                    result_digest: v["result_digest"].as_str().map(|s| s.to_string()),
                };
            }
        }
    }
    EvalOut {
        signature: Some(format!("{}/worker-death", prop.id)),
        detail: format!("process ended without a result: {:?}", out.status),
        log_hash: String::new(),
        tape: Value::Null,
        trace: Vec::new(),
        died: Some(format!("{:?}", out.status)),
        result_digest: None,
    }
}

/// Whether evaluations started by this driver process run with WFSIM_REVERSE (set around cross-checks only).
static EVAL_REVERSE: std::sync::atomic::AtomicBool = std::sync::atomic::AtomicBool::new(false);

/// Re-execute one run (by seed and index) in fresh processes under the three configurations and report the
/// result digests: (simd, forward), (simd, reverse), (scalar, forward).
pub fn crosscheck(prop: &PropDef, tier: Tier, seed: u64, run: u64) -> [Option<String>; 3] {
    crosscheck_explained(prop, tier, seed, run).0
}

/// As `crosscheck`, plus the "baseline ..." trace lines on which the configurations disagree.
pub fn crosscheck_explained(prop: &PropDef, tier: Tier, seed: u64, run: u64) -> ([Option<String>; 3], Vec<String>) {
    let mut out = [None, None, None];
    let mut traces: Vec<Vec<String>> = Vec::new();
    for (i, (scalar, rev)) in [(false, false), (false, true), (true, false)].into_iter().enumerate() {
        EVAL_REVERSE.store(rev, std::sync::atomic::Ordering::SeqCst);
        let r = eval_tape(prop, tier, scalar, run, seed, None, true);
        out[i] = r.result_digest;
        traces.push(r.trace.into_iter().filter(|l| l.starts_with("baseline ")).collect());
    }
    EVAL_REVERSE.store(false, std::sync::atomic::Ordering::SeqCst);
    let names = ["(simd, forward)", "(simd, reverse)", "(scalar, forward)"];
    let mut diff = Vec::new();
    for other in 1..3 {
        for l in &traces[0] {
            if !traces[other].contains(l) {
                let key = l.split(" -> ").next().unwrap_or("");
                let theirs = traces[other].iter().find(|x| x.starts_with(key)).cloned().unwrap_or_else(|| "<missing>".into());
                diff.push(format!("{} {l}   BUT   {} {theirs}", names[0], names[other]));
            }
        }
    }
    (out, diff)
}

fn rng_counter() -> u64 {
    use std::sync::atomic::{AtomicU64, Ordering};
    static C: AtomicU64 = AtomicU64::new(0);
    C.fetch_add(1, Ordering::Relaxed)
}

// ------------------------------------------------------------------ minimiser

fn minimise(prop: &PropDef, tier: Tier, scalar: bool, run: u64, seed: u64, sig: &str, tape: Vec<u32>) -> (Vec<u32>, usize) {
    // VERIF_MIN_REPLAYS=0 skips minimisation (used by the sensitivity regression, which only needs the verdict)
    let budget_replays: usize = std::env::var("VERIF_MIN_REPLAYS").ok().and_then(|s| s.parse().ok()).unwrap_or(1500);
    let start = Instant::now();
    let mut used = 0usize;
    let mut best = tape;
    let mut test = |cand: &[u32], used: &mut usize| -> bool {
        if *used >= budget_replays || start.elapsed().as_secs() > 90 {
            return false;
        }
        *used += 1;
        let r = eval_tape(prop, tier, scalar, run, seed, Some(cand), false);
        r.signature.as_deref() == Some(sig)
    };
    // strip trailing zeros (exhausted tape reads as 0)
    while best.last() == Some(&0) {
        best.pop();
    }
    loop {
        let before = best.clone();
        // 1. truncate tail (binary search for shortest prefix)
        let mut lo = 0usize;
        let mut hi = best.len();
        while lo < hi {
            let mid = (lo + hi) / 2;
            if test(&best[..mid], &mut used) {
                hi = mid;
            } else {
                lo = mid + 1;
            }
        }
        if hi < best.len() && test(&best[..hi], &mut used) {
            best.truncate(hi);
        }
        // 2. delete chunks, 3. zero chunks
        for pass in 0..2 {
            let mut size = 32usize;
            while size >= 1 {
                let mut i = 0usize;
                while i + size <= best.len() {
                    let mut cand = best.clone();
                    if pass == 0 {
                        cand.drain(i..i + size);
                    } else {
                        if cand[i..i + size].iter().all(|x| *x == 0) {
                            i += size;
                            continue;
                        }
                        for x in &mut cand[i..i + size] {
                            *x = 0;
                        }
                    }
                    if test(&cand, &mut used) {
                        best = cand;
                    } else {
                        i += size;
                    }
                }
                size /= 2;
            }
        }
        // 4. lower single values
        for i in 0..best.len() {
            let v = best[i];
            if v == 0 {
                continue;
            }
            for cand_v in [0, v / 2, v - 1] {
                if cand_v >= best[i] {
                    continue;
                }
                let mut cand = best.clone();
                cand[i] = cand_v;
                if test(&cand, &mut used) {
                    best = cand;
                    break;
                }
            }
        }
        while best.last() == Some(&0) {
            best.pop();
        }
        if best == before || used >= budget_replays || start.elapsed().as_secs() > 90 {
            break;
        }
    }
    (best, used)
}

// ------------------------------------------------------------------ known findings

pub struct Known {
    pub known: Vec<(String, String, String)>, // (property, signature, what)
}

pub fn load_known() -> Known {
    let p = verif_dir().join("known_findings.json");
    let mut known = Vec::new();
    if let Ok(s) = std::fs::read_to_string(&p) {
        if let Ok(v) = serde_json::from_str::<Value>(&s) {
            if let Some(a) = v["known"].as_array() {
                for e in a {
                    known.push((
                        e["property"].as_str().unwrap_or("").to_string(),
                        e["signature"].as_str().unwrap_or("").to_string(),
                        e["what"].as_str().unwrap_or("").to_string(),
                    ));
                }
            }
        }
    }
    Known { known }
}

// ------------------------------------------------------------------ driver

struct Found {
    run: u64,
    scalar: bool,
    v: Violation,
    tape: Option<Vec<u32>>,
}

pub fn driver_main(prop: &PropDef, tier: Tier) -> i32 {
    let t0 = Instant::now();
    let seed: u64 = std::env::var("VERIF_SEED")
        .ok()
        .and_then(|s| s.parse().ok())
        .unwrap_or(1);
    let ncpu = kernel::num_cpus();
    let nworkers: u64 = std::env::var("VERIF_WORKERS")
        .ok()
        .and_then(|s| s.parse().ok())
        .unwrap_or(ncpu as u64)
        .max(1);
    let scale: f64 = std::env::var("VERIF_SCALE")
        .ok()
        .and_then(|s| s.parse().ok())
        .unwrap_or(1.0);
    let count = ((match tier {
        Tier::Quick => prop.runs_quick,
        Tier::Thorough => prop.runs_thorough,
    }) as f64
        * scale) as u64;
    let count = count.max(prop.directed as u64 + 1);
    let deadline_s: f64 = std::env::var("VERIF_DEADLINE_S")
        .ok()
        .and_then(|s| s.parse().ok())
        .unwrap_or(match tier {
            Tier::Quick => 150.0,
            Tier::Thorough => 3000.0,
        });
    println!(
        "wfsim: property={} tier={} VERIF_SEED={} runs={} workers={}",
        prop.id,
        tier.name(),
        seed,
        count,
        nworkers
    );

    let mut children = Vec::new();
    for w in 0..nworkers {
        let scalar = prop.env_groups && w % 2 == 1;
        let mut cmd = Command::new(exe());
        cmd.env("MALLOC_ARENA_MAX", "1");
        // with env groups, workers 2p (SIMD) and 2p+1 (scalar) execute the same run indices (same tapes)
        let (first, stride) = if prop.env_groups && nworkers >= 2 { (w / 2, nworkers / 2) } else { (w, nworkers) };
        if prop.env_groups && nworkers >= 2 && w / 2 >= nworkers / 2 {
            continue;
        }
        cmd.arg("worker")
            .arg(prop.id)
            .arg(tier.name())
            .arg(seed.to_string())
            .arg(first.to_string())
            .arg(stride.to_string())
            .arg(count.to_string())
            // each worker is pinned to one CPU; the offset spreads concurrent check instances over different CPUs
            .arg(((w as usize + std::process::id() as usize) % ncpu).to_string())
            .arg(if w < 2 { "3" } else { "0" })
            .arg(deadline_s.to_string());
        if scalar {
            cmd.env("WIREFILTER_USE_AVX2", "0");
            cmd.env("WFSIM_REVERSE", "1");
        } else {
            cmd.env_remove("WIREFILTER_USE_AVX2");
            cmd.env_remove("WFSIM_REVERSE");
        }
        cmd.stdout(Stdio::piped()).stderr(Stdio::piped());
        let child = cmd.spawn().expect("spawn worker");
        children.push((w, scalar, child));
    }

    let mut found: Vec<Found> = Vec::new();
    let mut evaluations = 0u64;
    let mut nontrivial: BTreeSet<u64> = BTreeSet::new();
    let mut scheds: BTreeSet<u64> = BTreeSet::new();
    let mut switch_sigs: BTreeSet<u64> = BTreeSet::new();
    let mut counters: BTreeMap<String, u64> = BTreeMap::new();
    let mut steps = 0u64;
    let mut switches = 0u64;
    let mut samples: Vec<Value> = Vec::new();
    let mut simd_workers = 0u64;
    let mut scalar_workers = 0u64;
    let mut harness_errors: Vec<String> = Vec::new();
    let mut digest_sum: u64 = 0;
    let mut run_digests: [BTreeMap<u64, u64>; 2] = [BTreeMap::new(), BTreeMap::new()];
    let mut stopped_early = false;

    // read workers (threads to avoid pipe deadlocks)
    let mut readers = Vec::new();
    for (w, scalar, mut child) in children {
        let stdout = child.stdout.take().unwrap();
        let stderr = child.stderr.take().unwrap();
        let h = std::thread::spawn(move || {
            let errh = std::thread::spawn(move || {
                let mut tail: Vec<String> = Vec::new();
                for line in BufReader::new(stderr).lines().map_while(Result::ok) {
                    if tail.len() >= 20 {
                        tail.remove(0);
                    }
                    tail.push(line);
                }
                tail
            });
            let mut last_start: Option<u64> = None;
            let mut viols: Vec<Value> = Vec::new();
            let mut digests: Vec<(u64, u64)> = Vec::new();
            let mut summary: Option<Value> = None;
            for line in BufReader::new(stdout).lines().map_while(Result::ok) {
                if let Some(r) = line.strip_prefix("S ") {
                    last_start = r.trim().parse().ok();
                } else if let Some(r) = line.strip_prefix("V ") {
                    if let Ok(v) = serde_json::from_str::<Value>(r) {
                        viols.push(v);
                    }
                } else if let Some(r) = line.strip_prefix("E ") {
                    summary = serde_json::from_str::<Value>(r).ok();
                } else if let Some(r) = line.strip_prefix("D ") {
                    let mut it = r.split_whitespace();
                    if let (Some(a), Some(b)) = (it.next(), it.next()) {
                        if let (Ok(a), Ok(b)) = (a.parse::<u64>(), u64::from_str_radix(b, 16)) {
                            digests.push((a, b));
                        }
                    }
                }
            }
            let status = child.wait().expect("wait worker");
            let err_tail = errh.join().unwrap_or_default();
            (w, scalar, last_start, viols, summary, status, err_tail, digests)
        });
        readers.push(h);
    }
    for h in readers {
        let (w, scalar, last_start, viols, summary, status, err_tail, digests) = h.join().expect("reader thread");
        for (run, d) in digests {
            run_digests[scalar as usize].insert(run, d);
        }
        for v in viols {
            found.push(Found {
                run: v["run"].as_u64().unwrap_or(0),
                scalar: v["scalar"].as_bool().unwrap_or(false),
                v: Violation {
                    invariant: v["invariant"].as_str().unwrap_or("").to_string(),
                    class: v["class"].as_str().unwrap_or("").to_string(),
                    detail: v["detail"].as_str().unwrap_or("").to_string(),
                },
                tape: v["tape"]
                    .as_array()
                    .map(|a| a.iter().map(|x| x.as_u64().unwrap_or(0) as u32).collect()),
            });
        }
        match summary {
            Some(s) => {
                evaluations += s["evaluations"].as_u64().unwrap_or(0);
                for x in s["nontrivial"].as_array().into_iter().flatten() {
                    nontrivial.insert(x.as_u64().unwrap_or(0));
                }
                for x in s["scheds"].as_array().into_iter().flatten() {
                    scheds.insert(x.as_u64().unwrap_or(0));
                }
                for x in s["switch_sigs"].as_array().into_iter().flatten() {
                    switch_sigs.insert(x.as_u64().unwrap_or(0));
                }
                if let Some(c) = s["counters"].as_object() {
                    for (k, v) in c {
                        *counters.entry(k.clone()).or_insert(0) += v.as_u64().unwrap_or(0);
                    }
                }
                steps += s["steps"].as_u64().unwrap_or(0);
                switches += s["switches"].as_u64().unwrap_or(0);
                for x in s["samples"].as_array().into_iter().flatten() {
                    if samples.len() < 5 {
                        samples.push(x.clone());
                    }
                }
                if s["simd_active"].as_bool().unwrap_or(false) {
                    simd_workers += 1;
                } else {
                    scalar_workers += 1;
                }
                if s["stopped_early"].as_bool().unwrap_or(false) {
                    stopped_early = true;
                }
                let _ = w;
                digest_sum = digest_sum.wrapping_add(u64::from_str_radix(s["log_digest"].as_str().unwrap_or("0"), 16).unwrap_or(0));
            }
            None => {
                // the worker died: exit code 2 = harness error, anything else = the run it had announced killed it
                if status.code() == Some(2) {
                    harness_errors.push(format!("worker {w} reported a harness error: {}", err_tail.join(" | ")));
                } else {
                    found.push(Found {
                        run: last_start.unwrap_or(0),
                        scalar,
                        v: Violation::new(
                            &format!("{}/worker-death", prop.id),
                            "",
                            format!("worker {w} died ({status:?}) during run {last_start:?}; stderr tail: {}", err_tail.join(" | ")),
                        ),
                        tape: None,
                    });
                }
            }
        }
    }

    // optional extra phase (e.g. Miri)
    let mut extra_cov: BTreeMap<String, Value> = BTreeMap::new();
    let mut extra_viol: Vec<(Violation, Value)> = Vec::new();
    if let Some(extra) = prop.extra {
        let r = extra(tier, seed);
        extra_cov = r.coverage;
        extra_viol = r.violations;
        if let Some(e) = r.harness_error {
            harness_errors.push(e);
        }
    }

    // ---- cross-process differential: the same run index executed by the forward/SIMD and the reverse/scalar worker
    // must compute the same results. A difference is re-examined in fresh processes; only a difference that shows
    // again there is reported (otherwise it depends on what else the worker process had executed before: counted).
    let mut cross_compared = 0u64;
    let mut cross_unconfirmed = 0u64;
    let mut cross_found = 0;
    for (run, d0) in &run_digests[0] {
        let Some(d1) = run_digests[1].get(run) else { continue };
        cross_compared += 1;
        if d0 == d1 || cross_found >= 3 {
            if d0 != d1 {
                cross_unconfirmed += 1;
            }
            continue;
        }
        let (c, why) = crosscheck_explained(prop, tier, seed, *run);
        let class = if c[0] != c[1] {
            Some("depends-on-compile-order")
        } else if c[0] != c[2] {
            Some("depends-on-simd-switch")
        } else {
            None
        };
        match class {
            Some(class) => {
                cross_found += 1;
                let cmd = format!("{} crosscheck {} {} {} {}", exe().display(), prop.id, tier.name(), seed, run);
                extra_viol.push((
                    Violation::new(&format!("{}/result-differs-across-processes", prop.id), class, format!("run {run}: result digests (simd,forward)={:?} (simd,reverse)={:?} (scalar,forward)={:?}", c[0], c[1], c[2])),
                    json!({"format": 1, "property": prop.id, "engine": prop.engine, "seed": seed, "run": run, "tier": tier.name(), "cmd": cmd,
                           "signature": {"invariant": format!("{}/result-differs-across-processes", prop.id), "class": class, "detail": format!("{c:?}")},
                           "trace": std::iter::once(format!("the same run (seed {seed}, index {run}) re-executed in three fresh processes: (simd, forward order) {:?}, (simd, reverse order) {:?}, (scalar, forward order) {:?}", c[0], c[1], c[2])).chain(why.iter().cloned()).collect::<Vec<_>>()}),
                ));
            }
            None => cross_unconfirmed += 1,
        }
    }
    // ---- restart differential: a sample of the runs is re-executed alone in a fresh process; the result must be
    // what the long-lived worker computed (results must not depend on what the process executed before). A
    // difference is confirmed by replaying the worker's history in one fresh process, then the history is shortened.
    let mut restart_checked = 0u64;
    let mut restart_found = 0u64;
    if !run_digests[0].is_empty() {
        let all: Vec<(u64, u64)> = run_digests[0].iter().map(|(a, b)| (*a, *b)).collect();
        let want = 24usize.min(all.len());
        let (first0, stride0) = if prop.env_groups && nworkers >= 2 { (0u64, nworkers / 2) } else { (0u64, nworkers) };
        let _ = first0;
        for k in 0..want {
            let (run, worker_digest) = all[(all.len() - 1) * k / want.max(1)];
            let alone = eval_tape(prop, tier, false, run, seed, None, false).result_digest;
            restart_checked += 1;
            if alone.as_deref() == Some(format!("{worker_digest:016x}").as_str()) || restart_found >= 2 {
                continue;
            }
            // the worker that executed `run` executed run % stride, + stride, ... before it
            let stride = stride0.max(1);
            let mut history: Vec<u64> = (0..).map(|j| run % stride + j * stride).take_while(|x| *x <= run).collect();
            let with_history = history_digest(prop, tier, seed, false, false, &history);
            if with_history == alone {
                cross_unconfirmed += 1;
                continue;
            }
            // shorten: keep only the last k predecessors while the difference persists
            let mut keep = 1usize;
            while keep < history.len() {
                let cand: Vec<u64> = history[history.len() - 1 - keep..].to_vec();
                if history_digest(prop, tier, seed, false, false, &cand) != alone {
                    history = cand;
                    break;
                }
                keep *= 2;
            }
            restart_found += 1;
            let list = history.iter().map(|r| r.to_string()).collect::<Vec<_>>().join(",");
            let cmd = format!("a=$({exe} history {id} {t} {seed} {run} | cut -c3-); b=$({exe} history {id} {t} {seed} {list} | cut -c3-); echo alone=$a after-history=$b; test \"$a\" = \"$b\"", exe = exe().display(), id = prop.id, t = tier.name());
            extra_viol.push((
                Violation::new(&format!("{}/result-differs-across-processes", prop.id), "depends-on-process-history", format!("run {run}: alone in a fresh process {alone:?}, after runs {list} in the same process {with_history:?}")),
                json!({"format": 1, "property": prop.id, "engine": prop.engine, "seed": seed, "run": run, "tier": tier.name(), "cmd": cmd,
                       "signature": {"invariant": format!("{}/result-differs-across-processes", prop.id), "class": "depends-on-process-history", "detail": format!("alone {alone:?} vs after history {with_history:?}")},
                       "trace": [format!("run {run} computes {alone:?} when executed alone in a fresh process and {with_history:?} when the same process executed runs [{list}] first (history shortened from the worker's full sequence)")]}),
            ));
        }
        extra_cov.insert("restart_differential".into(), json!({"runs_reexecuted_alone_in_fresh_processes": restart_checked, "history_dependent_results": restart_found}));
    }
    if cross_compared > 0 {
        extra_cov.insert("cross_process".into(), json!({"runs_compared_between_paired_workers": cross_compared, "differences_confirmed_in_fresh_processes": cross_found, "differences_not_reproduced_in_fresh_processes": cross_unconfirmed,
            "what": "paired workers execute the same run indices: one on the SIMD path compiling in generation order, one with WIREFILTER_USE_AVX2=0 compiling in reverse order; their result digests must agree"}));
        if cross_unconfirmed > 0 {
            println!("NOTE: {cross_unconfirmed} run(s) gave different results in the two paired workers but identical results when re-executed alone in fresh processes (depends on what the worker had executed before)");
        }
    }

    // ---- triage violations: dedupe by signature, confirm, minimise, write replay files
    let known = load_known();
    let mut by_sig: BTreeMap<String, Found> = BTreeMap::new();
    for f in found {
        let sig = f.v.signature();
        match by_sig.get(&sig) {
            Some(prev) if prev.tape.as_ref().map(|t| t.len()).unwrap_or(usize::MAX) <= f.tape.as_ref().map(|t| t.len()).unwrap_or(usize::MAX) => {}
            _ => {
                by_sig.insert(sig, f);
            }
        }
    }
    let mut violation_lines: Vec<String> = Vec::new();
    let mut known_lines: Vec<String> = Vec::new();
    let replays_dir = out_dir().join("replays");
    let _ = std::fs::create_dir_all(&replays_dir);
    for (sig, f) in &by_sig {
        if let Some((_, _, what)) = known.known.iter().find(|(p, s, _)| p == prop.id && s == sig) {
            known_lines.push(format!("KNOWN-FINDING: property={} {} ({})", prop.id, sig, what));
            continue;
        }
        // confirm in a fresh process
        let first = eval_tape(prop, tier, f.scalar, f.run, seed, f.tape.as_deref(), false);
        if first.signature.as_deref() != Some(sig.as_str()) {
            // Not reproducible alone: does it depend on what the worker process (its main thread) executed before?
            // Re-execute the worker's sequence of runs up to this one in ONE fresh process.
            let stride = if prop.env_groups && nworkers >= 2 { nworkers / 2 } else { nworkers }.max(1);
            let mut history: Vec<u64> = (0..).map(|j| f.run % stride + j * stride).take_while(|x| *x <= f.run).collect();
            let with_history = history_violation(prop, tier, seed, f.scalar, f.scalar && prop.env_groups, &history);
            if with_history.as_ref().map(|x| x.0.as_str()) == Some(sig.as_str()) {
                // shorten the history: last 1, 2, 4, ... predecessors
                let mut keep = 1usize;
                while keep < history.len() {
                    let cand: Vec<u64> = history[history.len() - 1 - keep..].to_vec();
                    if history_violation(prop, tier, seed, f.scalar, f.scalar && prop.env_groups, &cand).as_ref().map(|x| x.0.as_str()) == Some(sig.as_str()) {
                        history = cand;
                        break;
                    }
                    keep *= 2;
                }
                let list = history.iter().map(|r| r.to_string()).collect::<Vec<_>>().join(",");
                let env = if f.scalar { "WIREFILTER_USE_AVX2=0 " } else { "" };
                let cmd = format!("{env}{exe} history {id} {t} {seed} {list} | grep -q '^HV {sig_esc}'; test $? -ne 0", exe = exe().display(), id = prop.id, t = tier.name(), sig_esc = sig.replace('\'', "."));
                let path = replays_dir.join(format!("{}-{}-{}-history.json", prop.id, seed, f.run));
                let doc = json!({"format": 1, "property": prop.id, "seed": seed, "run": f.run, "tier": tier.name(), "engine": prop.engine, "cmd": cmd,
                    "signature": {"invariant": f.v.invariant, "class": f.v.class, "detail": with_history.as_ref().map(|x| x.1.clone()).unwrap_or_default()},
                    "depends_on_process_history": true,
                    "trace": [format!("run {} alone in a fresh process: {:?}; after runs [{list}] in the same process (same thread): {sig}", f.run, first.signature),
                              "the violation needs state left behind by earlier runs in the same process / on the same thread (history shortened from the worker's full sequence)".to_string()]});
                std::fs::write(&path, serde_json::to_string_pretty(&doc).unwrap()).expect("write replay file");
                violation_lines.push(format!("VIOLATION property={} replay={}", prop.id, path.display()));
                println!("  {} :: (depends on process history) {}", sig, with_history.map(|x| x.1).unwrap_or_default());
                continue;
            }
            harness_errors.push(format!(
                "non-deterministic replay: run {} reported {} but a fresh-process replay gave {:?} (and replaying the worker's history did not reproduce it either)",
                f.run, sig, first.signature
            ));
            continue;
        }
        // a run that kills its process takes its tape with it: re-generate it with the unbuffered tape log
        let recovered = if f.tape.is_none() && first.died.is_some() { recover_tape_of_dead_run(prop, tier, f.scalar, f.run, seed) } else { None };
        let start_tape = f.tape.clone().or(recovered).filter(|t| {
            // the recovered prefix must reproduce the death when replayed
            f.tape.is_some() || eval_tape(prop, tier, f.scalar, f.run, seed, Some(t), false).signature.as_deref() == Some(sig.as_str())
        });
        let (min_tape, used) = match &start_tape {
            Some(t) => {
                let (m, u) = minimise(prop, tier, f.scalar, f.run, seed, sig, t.clone());
                (Some(m), u)
            }
            None => (None, 0),
        };
        let a = eval_tape(prop, tier, f.scalar, f.run, seed, min_tape.as_deref(), true);
        let b = eval_tape(prop, tier, f.scalar, f.run, seed, min_tape.as_deref(), true);
        if a.signature.as_deref() != Some(sig.as_str()) || b.signature.as_deref() != Some(sig.as_str()) || a.log_hash != b.log_hash {
            harness_errors.push(format!(
                "non-deterministic replay of minimised tape for {sig}: {:?}/{} vs {:?}/{}",
                a.signature, a.log_hash, b.signature, b.log_hash
            ));
            continue;
        }
        let path = replays_dir.join(format!("{}-{}-{}.json", prop.id, seed, f.run));
        let mut doc = json!({
            "format": 1, "property": prop.id, "seed": seed, "run": f.run, "tier": tier.name(),
            "worker_env": {"WIREFILTER_USE_AVX2": if f.scalar { json!("0") } else { Value::Null }},
            "engine": prop.engine,
            "signature": {"invariant": f.v.invariant, "class": f.v.class, "detail": a.detail},
            "trace": a.trace,
            "minimised": {"from_choices": f.tape.as_ref().map(|t| t.len()), "to_choices": min_tape.as_ref().map(|t| t.len()), "replays_used": used},
            "log_hash": a.log_hash,
        });
        // pretty document, compact tape (one [label, n, value] triple per entry, all on one line)
        let mut text = serde_json::to_string_pretty(&doc).unwrap();
        // a run that dies cannot report its labelled tape: fall back to the bare values
        let tape_value = if a.tape.is_null() { min_tape.as_ref().map(|t| json!(t)).unwrap_or(Value::Null) } else { a.tape.clone() };
        if !tape_value.is_null() {
            let tape = serde_json::to_string(&tape_value).unwrap();
            if let Some(pos) = text.rfind('}') {
                text.truncate(pos);
                let trimmed = text.trim_end().to_string();
                text = format!("{trimmed},\n  \"tape\": {tape}\n}}");
            }
        }
        std::fs::write(&path, text).expect("write replay file");
        violation_lines.push(format!("VIOLATION property={} replay={}", prop.id, path.display()));
        println!("  {} :: {}", sig, a.detail);
    }
    for (v, doc) in &extra_viol {
        let sig = v.signature();
        if let Some((_, _, what)) = known.known.iter().find(|(p, s, _)| p == prop.id && *s == sig) {
            known_lines.push(format!("KNOWN-FINDING: property={} {} ({})", prop.id, sig, what));
            continue;
        }
        let path = replays_dir.join(format!("{}-{}-extra-{}.json", prop.id, seed, violation_lines.len()));
        std::fs::write(&path, serde_json::to_string_pretty(doc).unwrap()).expect("write replay file");
        violation_lines.push(format!("VIOLATION property={} replay={}", prop.id, path.display()));
        println!("  {} :: {}", sig, v.detail);
    }

    // probes self-check
    for p in prop.required_probes {
        if counters.get(*p).copied().unwrap_or(0) == 0 && !stopped_early {
            harness_errors.push(format!("reach probe '{p}' stayed at 0"));
        }
    }

    // ---- evidence
    let wall = t0.elapsed().as_secs_f64();
    let mut coverage = json!({
        "evaluations": evaluations,
        "distinct_nontrivial": nontrivial.len(),
        "rule": prop.rule,
        "samples": samples,
        "runs_per_hour": (evaluations as f64 / wall.max(1e-9) * 3600.0) as u64,
        "seeds": {"VERIF_SEED": seed, "per_run_seed": "mix(VERIF_SEED, property, run index); one tape per run", "runs": count},
        "sim_steps": steps,
        "simulated_time": "none: nothing in wirefilter reads a clock; logical scheduling steps are reported instead",
        "switches": switches,
        "distinct_schedules": scheds.len(),
        "distinct_switch_signatures": switch_sigs.len(),
        "counters": counters,
        "workers": {"total": nworkers, "simd_active": simd_workers, "scalar": scalar_workers},
        "components": {"real": prop.real, "stub": prop.stub},
        "known_findings_reobserved": known_lines.len(),
        "stopped_early_at_deadline": stopped_early,
        "event_log_digest": format!("{digest_sum:016x}"),
    });
    for (k, v) in extra_cov {
        coverage[k] = v;
    }
    let evidence = json!({
        "property_id": prop.id,
        "tier": tier.name(),
        "seed": seed,
        "level": prop.level,
        "coverage": coverage,
        "assumptions": prop.assumptions,
        "wall_s": wall,
        "violations": violation_lines.len(),
    });
    let evdir = out_dir().join("evidence");
    let _ = std::fs::create_dir_all(&evdir);
    std::fs::write(
        evdir.join(format!("{}.json", prop.id)),
        serde_json::to_string_pretty(&evidence).unwrap() + "\n",
    )
    .expect("write evidence");

    for l in &known_lines {
        println!("{l}");
    }
    for l in &violation_lines {
        println!("{l}");
    }
    println!(
        "wfsim: {} {}: {} runs, {} distinct non-trivial, {} steps, {} switches, digest {:016x}, {:.1}s",
        prop.id,
        tier.name(),
        evaluations,
        nontrivial.len(),
        steps,
        switches,
        digest_sum,
        wall
    );
    if !violation_lines.is_empty() {
        return 1;
    }
    if !harness_errors.is_empty() {
        for e in &harness_errors {
            eprintln!("HARNESS-ERROR: {e}");
        }
        return 2;
    }
    0
}

// ------------------------------------------------------------------ replay

pub fn replay_main(lookup: fn(&str) -> Option<&'static PropDef>, file: &str) -> i32 {
    let v: Value = match std::fs::read_to_string(file).ok().and_then(|s| serde_json::from_str(&s).ok()) {
        Some(v) => v,
        None => {
            eprintln!("cannot read replay file {file}");
            return 2;
        }
    };
    let pid = v["property"].as_str().unwrap_or("");
    if let Some(cmd) = v.get("cmd").and_then(|c| c.as_str()) {
        // extra-phase replay (e.g. Miri): the file carries the command line
        println!("replaying via: {cmd}");
        let st = Command::new("sh").arg("-c").arg(cmd).env("MALLOC_ARENA_MAX", "1").status();
        return match st {
            Ok(s) if s.success() => 0,
            Ok(_) => 1,
            Err(_) => 2,
        };
    }
    let Some(prop) = lookup(pid) else {
        eprintln!("unknown property {pid}");
        return 2;
    };
    let tier = Tier::parse(v["tier"].as_str().unwrap_or("quick"));
    let scalar = v["worker_env"]["WIREFILTER_USE_AVX2"].as_str() == Some("0");
    let run = v["run"].as_u64().unwrap_or(0);
    let seed = v["seed"].as_u64().unwrap_or(1);
    let tape: Option<Vec<u32>> = v["tape"].as_array().map(|a| {
        a.iter()
            .map(|x| x.as_array().map(|a| a[2].as_u64().unwrap_or(0)).unwrap_or_else(|| x.as_u64().unwrap_or(0)) as u32)
            .collect()
    });
    let want_sig = {
        let inv = v["signature"]["invariant"].as_str().unwrap_or("");
        let class = v["signature"]["class"].as_str().unwrap_or("");
        if class.is_empty() { inv.to_string() } else { format!("{inv}:{class}") }
    };
    let r = eval_tape(prop, tier, scalar, run, seed, tape.as_deref(), true);
    for l in &r.trace {
        println!("{l}");
    }
    println!("expected signature: {want_sig}");
    println!("observed signature: {:?}   detail: {}", r.signature, r.detail);
    println!("log hash: recorded {} observed {}", v["log_hash"].as_str().unwrap_or(""), r.log_hash);
    if r.signature.as_deref() == Some(want_sig.as_str()) {
        println!("VIOLATION property={pid} replay={file}");
        1
    } else {
        println!("not reproduced");
        0
    }
}
