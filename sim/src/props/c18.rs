//! C18 — compiled filters are deterministic and safe to execute concurrently.

use crate::driver::{ExtraResult, PropDef, RunCtx, Tier};
use crate::kernel::{self, Violation, chance, choose, choose_w, range};
use crate::model::MValue;
use crate::seams::{self, SimCompiler};
use crate::wgen;
use std::panic::{AssertUnwindSafe, catch_unwind};
use std::sync::{Arc, Mutex};
use wirefilter::{ExecutionContext, Filter, FilterAst, FilterValue, FilterValueAst};

pub static DEF: PropDef = PropDef {
    id: "C18",
    engine: "wfsim conc",
    level: "exploration",
    rule: "one run = T in {2,4,16,64} tasks (real OS threads, one baton) released together, each performing 1-8 steps over {execute filter i on context j, execute value expression, recompile filter i from a clone of its AST and execute, clone / drop scheme and AST, serialise AST} on 1-6 generated filters (regex, wildcard, contains, in {..}, in $list, [*] with any/all, function calls with memoised extra arguments, boolean combinations) and 1-4 contexts (shared through Arc and / or per task), interleaved by the seeded scheduler at every compiled-node entry (SimCompiler) and harness callback; every result is compared with a sequential baseline computed before, and the baseline is recomputed afterwards in another order; optional injected panic in one execution; non-trivial = at least one pre-emption happened while >= 2 tasks were inside an execution; distinct = distinct choice tapes; thorough adds Miri (data races / UB below node granularity) over many interpreter seeds",
    runs_quick: 10_000,
    runs_thorough: 500_000,
    directed: 0,
    env_groups: true,
    run,
    real: &["filter parser, DefaultCompiler / every compiled closure, Filter::execute, FilterValue::execute", "regex-automata meta::Regex with its cache pool", "sliceslice / memchr searchers, LazyLock SIMD latch", "Scheme / AST Arc sharing", "real OS threads"],
    stub: &["thread scheduler (cooperative baton; pre-emption at node entries and callbacks only)", "SIMD anchor draw (supplied by the tape)", "user functions and list matcher (harness plug-ins)"],
    assumptions: &["code between two scheduling points is atomic in this engine; instruction-level interleavings and data races are covered only by the Miri tier (scalar path)", "harness callbacks are pure functions of their arguments"],
    required_probes: &["c18.exec", "c18.recompile", "c18.value_exec", "c18.shared_ctx", "c18.regex_on_2_threads", "c18.t64", "c18.injected_panic_isolated", "c18.inside_overlap", "c18.parse", "c18.panic_burst", "c18.refused_parse", "c18.shared_parser"],
    extra: Some(extra),
};

fn v(inv: &str, class: impl Into<String>, detail: impl Into<String>) -> Violation {
    Violation::new(&format!("C18/{inv}"), class, detail)
}

#[derive(Clone, Debug, PartialEq)]
enum Outcome {
    Bool(bool),
    Value(Result<MValue, String>),
    Mismatch,
    Panicked(String),
}

fn exec_filter(f: &Filter, ctx: &ExecutionContext<'_>) -> Outcome {
    match catch_unwind(AssertUnwindSafe(|| f.execute(ctx))) {
        Ok(Ok(b)) => Outcome::Bool(b),
        Ok(Err(_)) => Outcome::Mismatch,
        Err(p) => Outcome::Panicked(kernel::panic_message(&*p)),
    }
}

fn exec_value(f: &FilterValue, ctx: &ExecutionContext<'_>) -> Outcome {
    match catch_unwind(AssertUnwindSafe(|| f.execute(ctx).map(|r| r.map(|val| MValue::from_lhs(&val)).map_err(|t| format!("{t:?}"))))) {
        Ok(Ok(r)) => Outcome::Value(r),
        Ok(Err(_)) => Outcome::Mismatch,
        Err(p) => Outcome::Panicked(kernel::panic_message(&*p)),
    }
}

struct Shared {
    /// one parser object shared by every task (declared first: dropped before the scheme handle it borrows), with the
    /// smallest nesting limit under which every text of the run parses sequentially, or one more
    parser: wirefilter::FilterParser<'static>,
    #[allow(dead_code)]
    parser_scheme: Box<wirefilter::Scheme>,
    texts: Vec<String>,
    asts: Vec<FilterAst>,
    filters: Vec<Filter>,
    vtexts: Vec<String>,
    vasts: Vec<FilterValueAst>,
    vfilters: Vec<FilterValue>,
    ctxs: Vec<ExecutionContext<'static>>,
    /// baseline[filter][ctx], vbaseline[vexpr][ctx]
    baseline: Vec<Vec<Outcome>>,
    vbaseline: Vec<Vec<Outcome>>,
    sim_compiler: bool,
    inside: Mutex<Vec<bool>>,
    boom_filter: Option<Filter>,
    boom_baseline: Vec<Outcome>,
}

#[derive(Clone, Copy, Debug)]
enum Step {
    Exec(usize, usize),
    ExecValue(usize, usize),
    Recompile(usize, usize),
    CloneDrop(usize),
    Serialise(usize),
    /// parse the filter text again inside the task (harness functions' parse-time callbacks are scheduling points)
    /// ... optionally after a *refused* parse on the same thread: the same text cut at the given byte offset (an
    /// unterminated literal, a dangling operator); whatever a refused parse leaves behind on the thread must not leak
    /// into the next one
    /// (third: through the run's one shared parser object instead of a parser of its own)
    Parse(usize, Option<usize>, bool),
    /// n executions in a row that each unwind out of a user callback and are caught by the caller, followed by a
    /// normal execution: the thread must be as good as new
    PanicBurst(usize, usize),
}

fn compile(ast: FilterAst, sim: bool) -> Filter {
    if sim { ast.compile_with_compiler(&mut SimCompiler) } else { ast.compile() }
}

fn compile_value(ast: FilterValueAst, sim: bool) -> FilterValue {
    if sim { ast.compile_with_compiler(&mut SimCompiler) } else { ast.compile() }
}

fn check(what: &str, text: &str, got: Outcome, want: &Outcome, task: usize) {
    if let Outcome::Panicked(m) = &got {
        if m.starts_with(seams::INJECTED) {
            // the injected callback fault: this execution has no result; its neighbours are still checked
            kernel::count("c18.injected_panic_isolated");
            return;
        }
    }
    if got != *want {
        let class = match &got {
            Outcome::Panicked(m) => format!("{what}:panic:{}", seams::panic_class(m)),
            _ => what.to_string(),
        };
        kernel::fail(v("result-differs-from-sequential", class, format!("task {task}: `{text}` gave {got:?} concurrently, sequential baseline {want:?}")));
    }
}

fn mark_inside(sh: &Shared, task: usize, on: bool) {
    let mut g = sh.inside.lock().unwrap();
    g[task] = on;
    if on && g.iter().filter(|x| **x).count() >= 2 {
        drop(g);
        kernel::count("c18.inside_overlap");
    }
}

fn task_body(task: usize, sh: Arc<Shared>, steps: Vec<Step>) {
    for s in steps {
        kernel::point("c18.step");
        if kernel::failed() {
            return;
        }
        match s {
            Step::Exec(f, c) => {
                mark_inside(&sh, task, true);
                let got = exec_filter(&sh.filters[f], &sh.ctxs[c]);
                mark_inside(&sh, task, false);
                kernel::count("c18.exec");
                check("execute", &sh.texts[f], got, &sh.baseline[f][c], task);
            }
            Step::ExecValue(f, c) => {
                mark_inside(&sh, task, true);
                let got = exec_value(&sh.vfilters[f], &sh.ctxs[c]);
                mark_inside(&sh, task, false);
                kernel::count("c18.value_exec");
                check("value", &sh.vtexts[f], got, &sh.vbaseline[f][c], task);
            }
            Step::Recompile(f, c) => {
                let ast = sh.asts[f].clone();
                let sim = sh.sim_compiler;
                let filter = match catch_unwind(AssertUnwindSafe(|| compile(ast, sim))) {
                    Ok(f) => f,
                    Err(p) => {
                        kernel::fail(v("recompile-panicked", "", format!("`{}`: {}", sh.texts[f], kernel::panic_message(&*p))));
                        return;
                    }
                };
                mark_inside(&sh, task, true);
                let got = exec_filter(&filter, &sh.ctxs[c]);
                mark_inside(&sh, task, false);
                kernel::count("c18.recompile");
                check("recompiled", &sh.texts[f], got, &sh.baseline[f][c], task);
            }
            Step::CloneDrop(f) => {
                let a = sh.asts[f].clone();
                let s = a.scheme().clone();
                kernel::point("c18.clone");
                drop(a);
                drop(s);
            }
            Step::PanicBurst(c, n) => {
                let Some(bf) = &sh.boom_filter else { continue };
                for _ in 0..n {
                    seams::arm_panic("fn.boom", 1);
                    let r = catch_unwind(AssertUnwindSafe(|| bf.execute(&sh.ctxs[c])));
                    seams::disarm_all();
                    if r.is_ok() {
                        // the armed callback was not reached (field absent): nothing to burst with
                        break;
                    }
                }
                kernel::count("c18.panic_burst");
                let got = exec_filter(bf, &sh.ctxs[c]);
                check("after-panic-burst", "boom filter", got, &sh.boom_baseline[c], task);
            }
            Step::Parse(f, cut, shared) => {
                let ast = sh.asts[f].clone();
                let scheme = ast.scheme().clone();
                let own_parser = scheme.parser();
                let parser: &wirefilter::FilterParser<'_> = if shared {
                    kernel::count("c18.shared_parser");
                    &sh.parser
                } else {
                    &own_parser
                };
                if let Some(mut k) = cut {
                    let text = &sh.texts[f];
                    while k > 0 && !text.is_char_boundary(k) {
                        k -= 1;
                    }
                    let refused = catch_unwind(AssertUnwindSafe(|| parser.parse(&text[..k]).is_err()));
                    if matches!(refused, Ok(true)) {
                        kernel::count("c18.refused_parse");
                    }
                }
                match catch_unwind(AssertUnwindSafe(|| parser.parse(&sh.texts[f]).map_err(|e| e.to_string()))) {
                    Ok(Ok(again)) => {
                        kernel::count("c18.parse");
                        if again != ast {
                            kernel::fail(v("concurrent-parse-differs", "", format!("task {task}: `{}` parsed to {again:?} concurrently, {ast:?} sequentially", sh.texts[f])));
                        }
                    }
                    Ok(Err(e)) => kernel::fail(v("concurrent-parse-differs", "rejected", format!("task {task}: `{}` was accepted sequentially, rejected concurrently: {e}", sh.texts[f]))),
                    Err(p) => kernel::fail(v("concurrent-parse-differs", "panic", format!("task {task}: `{}`: {}", sh.texts[f], kernel::panic_message(&*p)))),
                }
            }
            Step::Serialise(f) => {
                let a = serde_json::to_string(&sh.asts[f]).unwrap_or_default();
                kernel::point("c18.ser");
                let b = serde_json::to_string(&sh.asts[f].clone()).unwrap_or_default();
                if a != b {
                    kernel::fail(v("ast-json-differs", "", format!("{a} vs {b}")));
                }
            }
        }
    }
}

fn run(ctx: &RunCtx) -> Result<(), Violation> {
    seams::reset(ctx.run);
    let _scenario = choose(1, "scenario");
    let mut spec = wgen::gen_scheme(&[1, 3, 3, 4], chance(2, 3, "with_lists"), false);
    if spec.family == "tiny" {
        spec.functions = vec!["echo", "lower", "len", "join", "boom"];
    }
    let scheme = spec.build();
    // contexts
    let nctx = range(1, 4, "nctx");
    let models: Vec<_> = (0..nctx).map(|_| wgen::gen_model_ctx(&spec, 4, false)).collect();
    let ctxs: Vec<ExecutionContext<'static>> = models.iter().map(|m| wgen::materialise(&spec, &scheme, m)).collect();
    let mut pool = Vec::new();
    for m in &models {
        for val in m.values.iter().flatten() {
            wgen::leaves(val, &mut pool);
        }
    }
    // filters: all candidate texts are generated first (tape), then parsed and compiled in this worker's order
    // (forward, or reverse when the worker runs with WFSIM_REVERSE): results must not depend on that order
    let sim_compiler = !chance(3, 10, "default_compiler");
    let nf = range(1, 6, "nfilters");
    wgen::set_run_wildcard(chance(1, 2, "run.wildcard_on"));
    let candidates: Vec<String> = (0..nf * 2).filter_map(|_| wgen::gen_filter(&spec, &pool, 3)).collect();
    let nv = choose(3, "nvalues");
    let vcandidates: Vec<String> = (0..nv).filter_map(|_| wgen::gen_value_expr(&spec)).collect();
    wgen::set_run_wildcard(false);
    let order_of = |n: usize| -> Vec<usize> { if ctx.reverse_order { (0..n).rev().collect() } else { (0..n).collect() } };
    let mut parsed: Vec<Option<(FilterAst, Filter)>> = (0..candidates.len()).map(|_| None).collect();
    for i in order_of(candidates.len()) {
        match catch_unwind(AssertUnwindSafe(|| scheme.parse(&candidates[i]).map(|a| (a.clone(), compile(a, sim_compiler))))) {
            Ok(Ok(x)) => parsed[i] = Some(x),
            Ok(Err(_)) => kernel::count("discarded_unparsable"),
            Err(_) => kernel::count("discarded_parse_panic"),
        }
    }
    let mut vparsed: Vec<Option<(FilterValueAst, FilterValue)>> = (0..vcandidates.len()).map(|_| None).collect();
    for i in order_of(vcandidates.len()) {
        match catch_unwind(AssertUnwindSafe(|| scheme.parse_value(&vcandidates[i]).map(|a| (a.clone(), compile_value(a, sim_compiler))))) {
            Ok(Ok(x)) => vparsed[i] = Some(x),
            _ => kernel::count("discarded_unparsable"),
        }
    }
    // the first `nf` candidates (by generation index) that parsed: the same set whatever the order
    let mut texts = Vec::new();
    let mut asts = Vec::new();
    let mut filters = Vec::new();
    for (i, p) in parsed.into_iter().enumerate() {
        if let Some((a, f)) = p {
            if asts.len() < nf {
                texts.push(candidates[i].clone());
                asts.push(a);
                filters.push(f);
            }
        }
    }
    if asts.is_empty() {
        return Ok(());
    }
    let mut vtexts = Vec::new();
    let mut vasts = Vec::new();
    let mut vfilters = Vec::new();
    for (i, p) in vparsed.into_iter().enumerate() {
        if let Some((a, f)) = p {
            vtexts.push(vcandidates[i].clone());
            vasts.push(a);
            vfilters.push(f);
        }
    }

    // ---- sequential baseline on the main thread (points are no-ops here), in a tape-chosen order
    let mut baseline = vec![vec![Outcome::Mismatch; ctxs.len()]; filters.len()];
    let mut vbaseline = vec![vec![Outcome::Mismatch; ctxs.len()]; vfilters.len()];
    let rev = chance(1, 2, "baseline.rev") != ctx.reverse_order;
    let order: Vec<(usize, usize)> = {
        let mut o: Vec<(usize, usize)> = (0..filters.len()).flat_map(|f| (0..ctxs.len()).map(move |c| (f, c))).collect();
        if rev {
            o.reverse();
        }
        o
    };
    for (f, c) in &order {
        baseline[*f][*c] = exec_filter(&filters[*f], &ctxs[*c]);
        if let Outcome::Panicked(m) = &baseline[*f][*c] {
            return Err(v("sequential-execution-panicked", seams::panic_class(m), format!("`{}`: {m}", texts[*f])));
        }
    }
    for f in 0..vfilters.len() {
        for c in 0..ctxs.len() {
            vbaseline[f][c] = exec_value(&vfilters[f], &ctxs[c]);
            if let Outcome::Panicked(m) = &vbaseline[f][c] {
                return Err(v("sequential-execution-panicked", seams::panic_class(m), format!("`{}`: {m}", vtexts[f])));
            }
        }
    }
    // what this run computed, in canonical order: compared between the paired worker processes by the driver
    {
        let mut d = crate::rng::FNV_OFFSET;
        for (f, row) in baseline.iter().enumerate() {
            for (c, o) in row.iter().enumerate() {
                d = crate::rng::fnv_bytes(d, format!("{f}/{c}/{o:?};").as_bytes());
                crate::tr!("baseline filter {f} `{}` on context {c} -> {o:?}", texts[f]);
            }
        }
        for (f, row) in vbaseline.iter().enumerate() {
            for (c, o) in row.iter().enumerate() {
                d = crate::rng::fnv_bytes(d, format!("v{f}/{c}/{o:?};").as_bytes());
            }
        }
        kernel::set_result_digest(d);
    }

    // ---- tasks
    let t = [2usize, 4, 16, 64][choose_w(&[40, 35, 20, 5], "ntasks")];
    if t == 64 {
        kernel::count("c18.t64");
    }
    if ctxs.len() < t {
        kernel::count("c18.shared_ctx");
    }
    let mut plans: Vec<Vec<Step>> = Vec::new();
    let mut regex_tasks: Vec<Vec<usize>> = vec![Vec::new(); filters.len()];
    for ti in 0..t {
        let k = range(1, 8, "nsteps");
        let mut steps = Vec::new();
        for _ in 0..k {
            let f = choose(filters.len(), "step.f");
            let c = if chance(1, 2, "step.own_ctx") { ti % ctxs.len() } else { choose(ctxs.len(), "step.c") };
            let s = match choose_w(&[10, if vfilters.is_empty() { 0 } else { 3 }, 3, 1, 1, 2, 1], "step.kind") {
                0 => Step::Exec(f, c),
                1 => Step::ExecValue(choose(vfilters.len(), "step.v"), c),
                2 => Step::Recompile(f, c),
                3 => Step::CloneDrop(f),
                4 => Step::Serialise(f),
                5 => Step::Parse(f, chance(1, 2, "step.parse_after_refusal").then(|| choose(texts[f].len().max(1), "step.parse_cut")), chance(1, 2, "step.shared_parser")),
                _ => {
                    if chance(1, 4, "step.burst") {
                        Step::PanicBurst(c, [1usize, 33, 40][choose(3, "step.burst_n")])
                    } else {
                        Step::Exec(f, c)
                    }
                }
            };
            if matches!(s, Step::Exec(..) | Step::Recompile(..)) && texts[f].contains("matches") && !regex_tasks[f].contains(&ti) {
                regex_tasks[f].push(ti);
            }
            steps.push(s);
        }
        plans.push(steps);
    }
    if regex_tasks.iter().any(|x| x.len() >= 2) {
        kernel::count("c18.regex_on_2_threads");
    }
    let boom_filter = spec.functions.contains(&"boom").then(|| {
        let f = spec.fields.iter().find(|(_, t, _)| *t == crate::model::MType::Bytes).map(|f| f.0.clone());
        f.and_then(|f| scheme.parse(&format!("boom({f}) == \"zz\" or boom({f}) != \"zz\"")).ok()).map(|a| compile(a, sim_compiler))
    }).flatten();
    let boom_baseline: Vec<Outcome> = match &boom_filter {
        Some(bf) => ctxs.iter().map(|c| exec_filter(bf, c)).collect(),
        None => Vec::new(),
    };
    // optional injected callback panic in one execution
    if spec.functions.contains(&"boom") && texts.iter().any(|t| t.contains("boom(")) && chance(1, 3, "inject") {
        seams::arm_panic("fn.boom", 1 + choose(4, "inject.nth") as u32);
    }
    // the shared parser: the smallest nesting limit under which every text parses on its own, or one more, or the default
    let parser_scheme = Box::new(scheme.clone());
    let scheme_ref: &'static wirefilter::Scheme = unsafe { &*(&*parser_scheme as *const wirefilter::Scheme) };
    let mut settings = wirefilter::ParserSettings::default();
    if !chance(1, 4, "parser.default_limit") {
        let fits = (1u16..=16).find(|d| {
            let mut st = wirefilter::ParserSettings::default();
            st.max_nesting_depth = *d;
            let p = wirefilter::FilterParser::with_settings(&scheme, st);
            texts.iter().all(|t| p.parse(t).is_ok())
        });
        if let Some(d) = fits {
            settings.max_nesting_depth = d + choose(2, "parser.slack") as u16;
        }
    }
    let parser = wirefilter::FilterParser::with_settings(scheme_ref, settings);
    let sh = Arc::new(Shared {
        parser,
        parser_scheme,
        boom_filter,
        boom_baseline,
        texts: texts.clone(),
        asts,
        filters,
        vtexts,
        vasts,
        vfilters,
        ctxs,
        baseline,
        vbaseline,
        sim_compiler,
        inside: Mutex::new(vec![false; t]),
    });
    if ctx.want_sample {
        let plans_desc: Vec<String> = plans.iter().take(4).map(|p| format!("{p:?}")).collect();
        let texts = texts.clone();
        let spec_d = spec.describe();
        kernel::set_sample(move || serde_json::json!({"kind": "concurrent-execution", "scheme": spec_d, "filters": texts, "tasks": t, "sim_compiler": sim_compiler, "plans_of_first_tasks": plans_desc}));
    }
    for (i, t) in texts.iter().enumerate() {
        crate::tr!("filter {i}: {t}");
    }
    let fns: Vec<kernel::TaskFn> = plans
        .into_iter()
        .enumerate()
        .map(|(i, p)| {
            let sh = sh.clone();
            Box::new(move || task_body(i, sh, p)) as kernel::TaskFn
        })
        .collect();
    for (i, r) in kernel::run_tasks(fns).into_iter().enumerate() {
        if let Err(p) = r {
            return Err(v("task-died", seams::panic_class(&p), format!("task {i}: {p}")));
        }
    }
    seams::disarm_all();
    if kernel::failed() {
        return Ok(());
    }
    // ---- afterwards: recompute the baseline in the other order; must agree (no state leaked between executions)
    for (f, c) in order.iter().rev() {
        let again = exec_filter(&sh.filters[*f], &sh.ctxs[*c]);
        if again != sh.baseline[*f][*c] {
            return Err(v("repeated-execution-differs", "", format!("`{}`: {:?} before, {again:?} after the concurrent phase", sh.texts[*f], sh.baseline[*f][*c])));
        }
        let recompiled = compile(sh.asts[*f].clone(), !sh.sim_compiler);
        let r = exec_filter(&recompiled, &sh.ctxs[*c]);
        if r != sh.baseline[*f][*c] {
            return Err(v("recompilation-differs", "", format!("`{}`: {:?} vs recompiled {r:?}", sh.texts[*f], sh.baseline[*f][*c])));
        }
    }
    for f in 0..sh.vfilters.len() {
        for c in 0..sh.ctxs.len() {
            let again = exec_value(&sh.vfilters[f], &sh.ctxs[c]);
            if again != sh.vbaseline[f][c] {
                return Err(v("repeated-execution-differs", "value", format!("`{}`", sh.vtexts[f])));
            }
        }
    }
    let _ = &sh.vasts;
    if kernel::counter("c18.inside_overlap") > 0 {
        kernel::set_nontrivial();
    }
    Ok(())
}

// ------------------------------------------------------------------ Miri tier

fn extra(tier: Tier, seed: u64) -> ExtraResult {
    let mut out = ExtraResult::default();
    if std::env::var("VERIF_MIRI").as_deref() == Ok("0") {
        out.coverage.insert("miri".into(), serde_json::json!("switched off by VERIF_MIRI=0"));
        return out;
    }
    // quick: 2 x 12 interpreter seeds (pre-emption rates 0.1 and 0.4, about 60 s); thorough: 2 x 64
    let default_seeds = if tier == Tier::Thorough { 64 } else { 24 };
    crate::miri::run_miri(seed, default_seeds, &mut out);
    out
}
