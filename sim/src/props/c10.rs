//! C10 — `contains` is exact substring search on every code path.

use crate::driver::{PropDef, RunCtx};
use crate::kernel::{self, Violation, chance, choose, choose_w, range};
use crate::seams::{self, AnchorMode, SimCompiler};
use std::panic::{AssertUnwindSafe, catch_unwind};
use std::sync::Arc;
use wirefilter::{Array, ExecutionContext, Filter, Scheme, SchemeBuilder, Type};

pub static DEF: PropDef = PropDef {
    id: "C10",
    engine: "wfsim contains",
    level: "exploration",
    rule: "one run = one needle (length 0..=40 over a tape-chosen alphabet: two letters, lower-case, all bytes) compiled once per anchor position 1..len-1 (the guarded hook substitutes the tape's / loop's position for production's random draw) plus through an index, a [*] + any and a function result, executed on 8-12 haystacks of length 0..=300 (rarely up to 8 KiB, around 256/512/1024/2048/4096/8192) drawn from classes {absent, at offset 0, at the very end, straddling a 16/32/64-byte boundary, needle longer than haystack, near-miss in first / last / anchor byte, repeated prefixes, non-UTF-8} and compared with a naive windows search; every fourth run instead lets production's own draw through (observe mode, recorded on the tape); half of the worker processes run with WIREFILTER_USE_AVX2=0; some runs compile inside two scheduled tasks (first use of the process-wide latch); non-trivial = needle length >= 2 and at least one haystack containing and one not containing it; distinct = distinct choice tapes",
    runs_quick: 1_200_000,
    runs_thorough: 40_000_000,
    directed: 0,
    env_groups: true,
    run,
    real: &["parser + compiler of `contains` (EmptySearcher / MemchrSearcher / Avx2Searcher<[u8;N]> / boxed Avx2Searcher / MemmemSearcher)", "sliceslice AVX2 search (native)", "USE_AVX2 LazyLock latch incl. the WIREFILTER_USE_AVX2 environment switch", "Filter::execute"],
    stub: &["the random anchor draw (forced by the tape in 3 of 4 runs; observed and recorded in the 4th)", "thread scheduler for the runs that compile inside tasks"],
    assumptions: &["naive windows search is the reference", "this machine has AVX2 (reported per worker in the evidence); on a machine without it both worker groups take the scalar path"],
    required_probes: &["c10.exec", "c10.hit", "c10.miss", "c10.observe_runs", "c10.compile_in_task", "c10.via_each", "c10.via_fn", "c10.straddle", "c10.nearmiss", "c10.prefix_at_end", "c10.sibling"],
    extra: None,
};

fn v(inv: &str, class: impl Into<String>, detail: impl Into<String>) -> Violation {
    Violation::new(&format!("C10/{inv}"), class, detail)
}

const LEN_LABELS: [&str; 41] = [
    "c10.len00", "c10.len01", "c10.len02", "c10.len03", "c10.len04", "c10.len05", "c10.len06", "c10.len07", "c10.len08", "c10.len09", "c10.len10", "c10.len11", "c10.len12",
    "c10.len13", "c10.len14", "c10.len15", "c10.len16", "c10.len17", "c10.len18", "c10.len19", "c10.len20", "c10.len21", "c10.len22", "c10.len23", "c10.len24", "c10.len25",
    "c10.len26", "c10.len27", "c10.len28", "c10.len29", "c10.len30", "c10.len31", "c10.len32", "c10.len33", "c10.len34", "c10.len35", "c10.len36", "c10.len37", "c10.len38",
    "c10.len39", "c10.len40",
];

fn naive(h: &[u8], n: &[u8]) -> bool {
    n.is_empty() || (n.len() <= h.len() && h.windows(n.len()).any(|w| w == n))
}

fn lit(b: &[u8]) -> String {
    let mut s = String::from("\"");
    for &c in b {
        match c {
            b'"' => s.push_str("\\\""),
            b'\\' => s.push_str("\\\\"),
            0x20..=0x7e => s.push(c as char),
            _ => s.push_str(&format!("\\x{c:02x}")),
        }
    }
    s.push('"');
    s
}

fn hex(b: &[u8]) -> String {
    let mut s = String::new();
    for x in b.iter().take(48) {
        s.push_str(&format!("{x:02x}"));
    }
    if b.len() > 48 {
        s.push_str(&format!("..({}B)", b.len()));
    }
    s
}

fn scheme() -> Scheme {
    let mut b = SchemeBuilder::new();
    b.add_optional_field("b", Type::Bytes).unwrap();
    b.add_optional_field("arr", Type::Array(Type::Bytes.into())).unwrap();
    b.add_function("echo", seams::function_def("echo")).unwrap();
    b.build()
}

fn gen_alpha_byte(alpha: usize) -> u8 {
    match alpha {
        0 => b"ab"[choose(2, "al.b")],
        1 => b'a' + choose(26, "al.b") as u8,
        // the bytes padding and sentinels are made of
        3 => [0x00u8, b'a', 0xff][choose(3, "al.b")],
        _ => choose(256, "al.b") as u8,
    }
}

fn gen_haystack(alpha: usize, needle: &[u8], anchor_hint: usize) -> (Vec<u8>, &'static str) {
    let l = needle.len();
    let class = choose_w(&[3, 2, 2, 4, 1, 4, 2, 1, 3], "hay.class");
    let base_len = match choose_w(&[2, 4, 6, 6, 4, 1], "hay.lenclass") {
        0 => choose(4, "hay.len"),
        1 => range(4, 17, "hay.len"),
        2 => range(15, 40, "hay.len"),
        3 => range(30, 100, "hay.len"),
        4 => range(100, 300, "hay.len"),
        // long values: thresholds a searcher may switch strategy at (page, buffer sizes) lie here
        _ => [255usize, 511, 1023, 2047, 4095, 8191][choose(6, "hay.long_base")] + choose(4, "hay.long_off"),
    };
    let mut h: Vec<u8> = (0..base_len).map(|_| gen_alpha_byte(alpha)).collect();
    let place = |h: &mut Vec<u8>, at: usize, what: &[u8]| {
        if h.len() < at + what.len() {
            h.resize(at + what.len(), b'z');
        }
        h[at..at + what.len()].copy_from_slice(what);
    };
    let name = match class {
        0 => "random",
        1 => {
            place(&mut h, 0, needle);
            "at-offset-0"
        }
        2 => {
            h.extend_from_slice(needle);
            "at-the-very-end"
        }
        3 => {
            // straddle a 16 / 32 / 64-byte boundary
            let boundary = if base_len > 300 {
                [256usize, 512, 1024, 2048, 4096, 128][choose(6, "hay.boundary")].min(base_len)
            } else {
                [16usize, 32, 64, 48][choose(4, "hay.boundary")]
            };
            let back = if l == 0 { 0 } else { 1 + choose(l.min(boundary), "hay.back") };
            place(&mut h, boundary - back.min(boundary), needle);
            kernel::count("c10.straddle");
            "straddles-block-boundary"
        }
        4 => {
            h.truncate(l.saturating_sub(1 + choose(2, "hay.shorter")));
            "shorter-than-needle"
        }
        5 => {
            // near miss: the needle with one byte changed (first / last / anchor / random), possibly followed by a real hit
            if l > 0 {
                let mut nm = needle.to_vec();
                let at = match choose(4, "hay.nm_at") {
                    0 => 0,
                    1 => l - 1,
                    2 => anchor_hint.min(l - 1),
                    _ => choose(l, "hay.nm_any"),
                };
                nm[at] = nm[at].wrapping_add(1 + choose(3, "hay.nm_delta") as u8);
                let p = choose(h.len() + 1, "hay.nm_pos");
                place(&mut h, p, &nm);
                if chance(1, 3, "hay.nm_then_hit") {
                    h.extend_from_slice(needle);
                }
                kernel::count("c10.nearmiss");
            }
            "near-miss"
        }
        6 => {
            // repeated prefixes: many false candidates
            if l > 1 {
                let reps = range(1, 8, "hay.reps");
                let mut out = Vec::new();
                for _ in 0..reps {
                    out.extend_from_slice(&needle[..l - 1]);
                }
                if chance(1, 2, "hay.rep_hit") {
                    out.extend_from_slice(needle);
                }
                h = out;
            }
            "repeated-prefix"
        }
        8 => {
            // the haystack ENDS with a proper prefix of the needle (whatever lies beyond the end must not complete it)
            if l > 1 {
                let keep = 1 + choose(l - 1, "hay.prefix_len");
                h.extend_from_slice(&needle[..keep]);
            }
            kernel::count("c10.prefix_at_end");
            "needle-prefix-at-the-end"
        }
        _ => {
            let p = choose(h.len() + 1, "hay.mid_pos");
            place(&mut h, p, needle);
            "in-the-middle"
        }
    };
    h.truncate(if base_len > 300 { 8300 } else { 300.max(l + 64) });
    (h, name)
}

struct Compiled {
    what: String,
    filter: Filter,
    /// 0 = b, 1 = arr[0], 2 = any(arr[*]), 3 = echo(b)
    via: usize,
}

fn compile(scheme: &Scheme, text: &str, sim: bool) -> Result<Filter, Violation> {
    match catch_unwind(AssertUnwindSafe(|| scheme.parse(text).map(|a| if sim { a.compile_with_compiler(&mut SimCompiler) } else { a.compile() }))) {
        Ok(Ok(f)) => Ok(f),
        Ok(Err(e)) => Err(v("needle-rejected", "", format!("`{text}`: {e}"))),
        Err(p) => Err(v("compile-panicked", seams::panic_class(&kernel::panic_message(&*p)), format!("`{text}`: {}", kernel::panic_message(&*p)))),
    }
}

fn run(ctx: &RunCtx) -> Result<(), Violation> {
    seams::reset(ctx.run);
    let scheme = scheme();
    let observe = chance(1, 4, "observe");
    let alpha = choose_w(&[3, 2, 3, 2], "alpha");
    let l = match choose_w(&[1, 2, 10, 5], "needle.lenclass") {
        0 => 0,
        1 => 1,
        2 => range(2, 16, "needle.len"),
        _ => range(17, 40, "needle.len"),
    };
    kernel::count(LEN_LABELS[l]);
    let needle: Vec<u8> = (0..l).map(|_| gen_alpha_byte(alpha)).collect();
    let nl = lit(&needle);
    crate::tr!("needle ({l} bytes): {}", hex(&needle));

    // ---- a sibling pattern alive at the same time: the needle with one bit of one byte flipped (whatever compiled
    // patterns share - tables, caches, interned searchers - must not confuse two patterns that are almost the same),
    // compiled before or after the needle's own filters by tape choice
    let sibling: Option<Vec<u8>> = (l >= 1 && chance(1, 3, "sibling")).then(|| {
        let mut sb = needle.clone();
        let at = choose(l, "sibling.at");
        sb[at] ^= 1 << [0usize, 0, 5, 7, 1][choose(5, "sibling.bit")];
        sb
    });
    let sibling_first = chance(1, 2, "sibling.first");
    let mut sibling_filter: Option<Filter> = None;
    if let (Some(sb), true) = (&sibling, sibling_first) {
        seams::harness(|h| h.anchor_mode = AnchorMode::Force);
        sibling_filter = Some(compile(&scheme, &format!("b contains {}", lit(sb)), false)?);
    }

    // ---- compile: once per anchor position (force), or with production's own draws (observe)
    let mut compiled: Vec<Compiled> = Vec::new();
    let in_tasks = chance(1, 8, "compile_in_tasks");
    if observe {
        kernel::count("c10.observe_runs");
        seams::harness(|h| h.anchor_mode = AnchorMode::Observe);
        for k in 0..4 {
            compiled.push(Compiled {
                what: format!("observe#{k}"),
                filter: compile(&scheme, &format!("b contains {nl}"), false)?,
                via: 0,
            });
        }
    } else if in_tasks {
        // the process-wide latch and the first compilations happen inside two scheduled tasks
        kernel::count("c10.compile_in_task");
        seams::harness(|h| h.anchor_mode = AnchorMode::Force);
        let out: Arc<std::sync::Mutex<Vec<(usize, Result<Filter, Violation>)>>> = Arc::new(std::sync::Mutex::new(Vec::new()));
        let mut fns: Vec<kernel::TaskFn> = Vec::new();
        for t in 0..2 {
            let scheme = scheme.clone();
            let out = out.clone();
            let text = format!("b contains {nl}");
            fns.push(Box::new(move || {
                kernel::point("c10.before_compile");
                let f = compile(&scheme, &text, true);
                out.lock().unwrap().push((t, f));
            }));
        }
        for r in kernel::run_tasks(fns) {
            if let Err(p) = r {
                return Err(v("task-died", seams::panic_class(&p), p));
            }
        }
        for (t, f) in Arc::try_unwrap(out).ok().unwrap().into_inner().unwrap() {
            compiled.push(Compiled {
                what: format!("compiled-in-task{t}"),
                filter: f?,
                via: 0,
            });
        }
    } else {
        for pos in 1..l.max(1) {
            seams::harness(|h| {
                h.anchor_mode = AnchorMode::Fixed(pos);
                h.anchors.clear();
            });
            let f = compile(&scheme, &format!("b contains {nl}"), false)?;
            let used = seams::harness(|h| h.anchors.clone());
            if !used.is_empty() {
                if used != vec![(l, pos)] {
                    return Err(v("anchor-hook", "", format!("asked for anchor {pos} of {l}, hook log {used:?}")));
                }
                kernel::count("c10.anchor_forced");
            }
            compiled.push(Compiled {
                what: format!("anchor={pos}"),
                filter: f,
                via: 0,
            });
        }
        if l < 2 {
            compiled.push(Compiled {
                what: "shortcut".into(),
                filter: compile(&scheme, &format!("b contains {nl}"), false)?,
                via: 0,
            });
        }
    }
    seams::harness(|h| h.anchor_mode = AnchorMode::Force);
    // other ways of reaching the field (tape-chosen anchor)
    let sim = chance(1, 2, "sim_compiler");
    compiled.push(Compiled { what: "arr[0]".into(), filter: compile(&scheme, &format!("arr[0] contains {nl}"), sim)?, via: 1 });
    compiled.push(Compiled { what: "any(arr[*])".into(), filter: compile(&scheme, &format!("any(arr[*] contains {nl})"), sim)?, via: 2 });
    compiled.push(Compiled { what: "echo(b)".into(), filter: compile(&scheme, &format!("echo(b) contains {nl}"), sim)?, via: 3 });
    kernel::count("c10.via_each");
    kernel::count("c10.via_fn");
    if let (Some(sb), false) = (&sibling, sibling_first) {
        sibling_filter = Some(compile(&scheme, &format!("b contains {}", lit(sb)), false)?);
    }
    if sibling.is_some() {
        kernel::count("c10.sibling");
    }

    // ---- haystacks
    let nh = range(8, 12, "nhay");
    let anchor_hint = if l > 1 { 1 + choose(l - 1, "anchor_hint") } else { 0 };
    let hays: Vec<(Vec<u8>, &'static str)> = (0..nh).map(|_| gen_haystack(alpha, &needle, anchor_hint)).collect();
    let mut hits = 0;
    let mut misses = 0;
    let mut ectx = ExecutionContext::new(&scheme);
    let fb = scheme.get_field("b").unwrap();
    let farr = scheme.get_field("arr").unwrap();
    for (i, (h, class)) in hays.iter().enumerate() {
        let want = naive(h, &needle);
        if want {
            hits += 1;
            kernel::count("c10.hit");
        } else {
            misses += 1;
            kernel::count("c10.miss");
        }
        // arr = [this haystack, the next one, an empty string]
        let next = &hays[(i + 1) % hays.len()].0;
        ectx.set_field_value(fb, h.clone()).unwrap();
        ectx.set_field_value(farr, Array::from_iter([h.clone(), next.clone(), Vec::new()])).unwrap();
        let want_any = want || naive(next, &needle) || naive(&[], &needle);
        if let (Some(sb), Some(sf)) = (&sibling, &sibling_filter) {
            let expect = naive(h, sb);
            match catch_unwind(AssertUnwindSafe(|| sf.execute(&ectx))) {
                Ok(Ok(got)) if got == expect => {}
                Ok(Ok(got)) => {
                    let path = if wirefilter::verif::simd_active() { "simd" } else { "scalar" };
                    return Err(v(
                        "wrong-answer",
                        format!("{path}/sibling"),
                        format!(
                            "pattern {} compiled {} its sibling {}: on haystack {} ({} bytes, class {class}) the engine says {got}, naive search says {expect}",
                            hex(sb),
                            if sibling_first { "before" } else { "after" },
                            hex(&needle),
                            hex(h),
                            h.len()
                        ),
                    ));
                }
                Ok(Err(e)) => return Err(v("scheme-mismatch", "", e.to_string())),
                Err(p) => return Err(v("search-panicked", seams::panic_class(&kernel::panic_message(&*p)), format!("sibling {}: {}", hex(sb), kernel::panic_message(&*p)))),
            }
        }
        for c in &compiled {
            let expect = if c.via == 2 { want_any } else { want };
            let got = match catch_unwind(AssertUnwindSafe(|| c.filter.execute(&ectx))) {
                Ok(Ok(b)) => b,
                Ok(Err(e)) => return Err(v("scheme-mismatch", "", e.to_string())),
                Err(p) => {
                    return Err(v(
                        "search-panicked",
                        seams::panic_class(&kernel::panic_message(&*p)),
                        format!("needle {} ({}), haystack {} [{class}]: {}", hex(&needle), c.what, hex(h), kernel::panic_message(&*p)),
                    ));
                }
            };
            kernel::count("c10.exec");
            if got != expect {
                let path = if wirefilter::verif::simd_active() { "simd" } else { "scalar" };
                let lenclass = match l {
                    0 => "len0",
                    1 => "len1",
                    2..=16 => "len2-16",
                    _ => "len17+",
                };
                return Err(v(
                    "wrong-answer",
                    format!("{path}/{lenclass}/{}", if c.via == 0 { "direct" } else { "indirect" }),
                    format!(
                        "needle {} ({l} bytes, {}), haystack {} ({} bytes, class {class}): engine says {got}, naive search says {expect}",
                        hex(&needle),
                        c.what,
                        hex(h),
                        h.len()
                    ),
                ));
            }
        }
    }
    // ---- the environment switch is honoured (reading forces the latch, so it comes after the run's compilations)
    let simd = wirefilter::verif::simd_active();
    #[cfg(target_arch = "x86_64")]
    let has_avx2 = std::arch::is_x86_feature_detected!("avx2");
    #[cfg(not(target_arch = "x86_64"))]
    let has_avx2 = false;
    if simd && ctx.scalar_worker {
        // the statement names WIREFILTER_USE_AVX2=0 as what selects the scalar fallback
        return Err(v(
            "env-switch",
            "scalar-worker-uses-simd",
            format!("WIREFILTER_USE_AVX2=0 set: {}, cpu has avx2: {has_avx2}, engine reports simd_active = {simd}", ctx.scalar_worker),
        ));
    }
    if !simd && has_avx2 && !ctx.scalar_worker {
        // nothing says the SIMD path must exist or be chosen: an engine that answers from the portable path everywhere
        // satisfies the property (the evidence then shows zero SIMD workers - a statement about coverage, not a finding)
        kernel::count("c10.simd_available_but_not_used");
    }
    kernel::count(if simd { "c10.runs_simd" } else { "c10.runs_scalar" });
    if l >= 2 && hits > 0 && misses > 0 {
        kernel::set_nontrivial();
    }
    if ctx.want_sample {
        kernel::set_sample(|| {
            serde_json::json!({"kind": "contains", "needle_hex": hex(&needle), "needle_len": l, "mode": if observe { "observe production draw" } else if in_tasks { "compile inside two scheduled tasks" } else { "every anchor 1..len-1" },
            "compilations": compiled.iter().map(|c| c.what.clone()).collect::<Vec<_>>(),
            "haystacks": hays.iter().map(|(h, c)| format!("{c}:{}B:{}", h.len(), if naive(h, &needle) { "hit" } else { "miss" })).collect::<Vec<_>>(), "simd_active": simd})
        });
    }
    Ok(())
}
