//! C20 — the C API mirrors the Rust API and reports failures via status and last-error.

use crate::driver::{PropDef, RunCtx, Tier};
use crate::kernel::{self, Violation, chance, choose, choose_w, range};
use crate::model::{MType, MValue, gen_value};
use crate::rng::{FNV_OFFSET, fnv_bytes};
use crate::seams::{self, SetListDef};
use crate::wgen::{self, ListKind, SchemeSpec};
use serde::de::DeserializeSeed;
use std::ffi::CStr;
use std::panic::{AssertUnwindSafe, catch_unwind};
use std::sync::Arc;
use wirefilter_ffi as ffi;
use wirefilter_ffi::{CPrimitiveType, CType, Status};

pub static DEF: PropDef = PropDef {
    id: "C20",
    engine: "wfsim capi",
    level: "exploration",
    rule: "one run = a scheme built through the C API (incl. failing additions) and 1-4 tasks (real OS threads with real thread-local last-error and catcher state, one baton), each issuing <= 12 (quick) / <= 30 (thorough) exported wirefilter_* calls (parse of well-typed / ill-typed / mutated / NUL-containing / non-UTF-8 text, serialise, hash, uses, compile, typed and JSON setters with right and wrong types and names, context serialise / deserialise of good, truncated and corrupted documents, match incl. a missing mandatory field and an injected callback panic, last-error clear, catcher enable / disable) on private and shared objects, interleaved between calls and at callback points; after every call the result is compared with the engine's Rust API on the same objects (lock-step) and wirefilter_get_last_error() with a per-task model; non-trivial = at least one failing call and one succeeding call were compared; distinct = distinct choice tapes",
    runs_quick: 200_000,
    runs_thorough: 6_000_000,
    directed: 2,
    env_groups: false,
    run,
    real: &["every exported wirefilter_* function called from the rlib", "wirefilter engine Rust API (reference, lock-step on the same objects)", "thread-local LAST_ERROR and panic catcher state on real OS threads"],
    stub: &["thread scheduler (cooperative baton)", "user function / list plug-ins registered through the Rust builder behind the C wrapper"],
    assumptions: &[
        "functions are called through the rlib, not through a C compiler: ABI layout is out of scope",
        "panics are injected into C-API calls only while the model says the catcher is installed and enabled on that task (otherwise unwinding into extern \"C\" aborts by language rule)",
        "a failing call must replace the calling thread's last-error message; a succeeding call leaves it unchanged",
    ],
    required_probes: &["c20.parse_ok", "c20.parse_err", "c20.nul_in_error", "c20.non_utf8", "c20.match_ok", "c20.status_panic", "c20.setter_fail", "c20.deser_fail", "c20.cross_task_error", "c20.hash", "c20.parse_panic", "c20.compile_panic", "c20.match_foreign", "c20.fail_burst", "c20.raw_json"],
    extra: None,
};

fn v(inv: &str, class: impl Into<String>, detail: impl Into<String>) -> Violation {
    Violation::new(&format!("C20/{inv}"), class, detail)
}

#[derive(Clone, Debug, PartialEq)]
enum ExpErr {
    None,
    Exact(Vec<u8>),
    Contains(String),
}

fn subst(s: &str) -> Vec<u8> {
    s.bytes().map(|b| if b == 0 { 0x1a } else { b }).collect()
}

#[derive(Clone, Debug)]
enum Doc {
    Good(Vec<u8>),
    Truncated(Vec<u8>),
    Corrupt(Vec<u8>),
    Raw(Vec<u8>),
}

#[derive(Clone, Debug)]
enum Call {
    Parse(Vec<u8>),
    SerializeAst,
    Hash,
    Uses(Vec<u8>),
    UsesList(Vec<u8>),
    Compile,
    SetInt(Vec<u8>, i64),
    SetBytes(Vec<u8>, Vec<u8>),
    SetIp4(Vec<u8>, [u8; 4]),
    SetIp6(Vec<u8>, [u8; 16]),
    SetBool(Vec<u8>, bool),
    SetJson(Vec<u8>, Vec<u8>),
    CtxSerialize,
    CtxDeserialize(Doc),
    Match,
    MatchShared,
    MatchBoom(u32),
    MatchMissingMandatory,
    ParseBoom(u32),
    CompileBoom,
    /// match a filter compiled for a structurally identical but distinct scheme: an error, never an evaluation
    MatchForeign,
    /// n failing parse calls in a row, each with its own message: the last one is what get_last_error shows
    FailBurst(usize),
    ClearLastError,
    EnableCatcher,
    DisableCatcher,
    BadFallbackMode(u8),
    SchemeJson,
}

struct Shared {
    scheme: &'static ffi::Scheme,
    spec: SchemeSpec,
    shared_filter: ffi::Filter,
    shared_filter_text: String,
    shared_ctx: ffi::ExecutionContext<'static>,
    shared_expect: Result<bool, String>,
    boom_filter_text: Option<String>,
    mandatory_filter_text: Option<String>,
    foreign_filter: ffi::Filter,
}

static FAIL_EPOCH: std::sync::atomic::AtomicU64 = std::sync::atomic::AtomicU64::new(0);

struct TaskState {
    task: usize,
    last_err: ExpErr,
    catcher: bool,
    ast: Option<Box<ffi::FilterAst>>,
    filter: Option<(Box<ffi::Filter>, wirefilter::Filter, String)>,
    ctx: Box<ffi::ExecutionContext<'static>>,
    shadow: wirefilter::ExecutionContext<'static>,
    ok_calls: u32,
    failed_calls: u32,
    arena: Vec<&'static [u8]>,
    /// the call being checked failed (set by `failing`, reset at the start of every call)
    call_failed: bool,
}

fn read_last_error() -> Option<Vec<u8>> {
    let p = ffi::wirefilter_get_last_error();
    if p.is_null() { None } else { Some(unsafe { CStr::from_ptr(p) }.to_bytes().to_vec()) }
}

fn verify_last_error(st: &mut TaskState, fname: &'static str) {
    let got = read_last_error();
    // The statement says what a *failing* call does to last-error; it is silent on succeeding calls. The
    // implementation leaves the message in place, but one that clears it on success would satisfy the
    // statement too: accept NULL after a succeeding call (and follow it), never a different text.
    if !st.call_failed && got.is_none() && st.last_err != ExpErr::None {
        st.last_err = ExpErr::None;
        kernel::count("c20.cleared_on_success");
        return;
    }
    let ok = match (&st.last_err, &got) {
        (ExpErr::None, None) => true,
        (ExpErr::Exact(want), Some(g)) => want == g,
        (ExpErr::Contains(want), Some(g)) => String::from_utf8_lossy(g).contains(want.as_str()),
        _ => false,
    };
    if !ok {
        let show = |b: &Option<Vec<u8>>| b.as_ref().map(|x| String::from_utf8_lossy(x).chars().take(160).collect::<String>());
        kernel::fail(v(
            "last-error-differs",
            fname,
            format!("task {}: after {fname}: wirefilter_get_last_error() = {:?}, model expects {:?}", st.task, show(&got), match &st.last_err {
                ExpErr::None => "NULL".to_string(),
                ExpErr::Exact(b) => format!("{:?}", String::from_utf8_lossy(b)),
                ExpErr::Contains(s) => format!("something containing {s:?}"),
            }),
        ));
    }
}

/// A call failed as the reference predicts: the message must have been replaced.
fn failing(st: &mut TaskState, fname: &'static str, expected: ExpErr) {
    st.call_failed = true;
    FAIL_EPOCH.fetch_add(1, std::sync::atomic::Ordering::SeqCst);
    st.last_err = expected;
    st.failed_calls += 1;
    let got = read_last_error();
    let replaced = match (&st.last_err, &got) {
        (ExpErr::Exact(want), Some(g)) => want == g,
        (ExpErr::Contains(want), Some(g)) => String::from_utf8_lossy(g).contains(want.as_str()),
        _ => false,
    };
    if !replaced {
        kernel::fail(v(
            "last-error-not-replaced",
            fname,
            format!(
                "task {}: {fname} failed; the engine's error is {:?} but wirefilter_get_last_error() = {:?}",
                st.task,
                match &st.last_err {
                    ExpErr::Exact(b) => String::from_utf8_lossy(b).into_owned(),
                    ExpErr::Contains(s) => s.clone(),
                    ExpErr::None => String::new(),
                },
                got.map(|g| String::from_utf8_lossy(&g).chars().take(160).collect::<String>())
            ),
        ));
        // resynchronise the model so that one finding does not cascade
        st.last_err = match read_last_error() {
            Some(b) => ExpErr::Exact(b),
            None => ExpErr::None,
        };
    }
}

fn mismatch(st: &TaskState, fname: &'static str, what: &str, detail: String) {
    kernel::fail(v("differs-from-rust-api", format!("{fname}/{what}"), format!("task {}: {fname}: {detail}", st.task)));
}

fn ras_bytes(s: &ffi::RustAllocatedString) -> Vec<u8> {
    if s.ptr.is_null() { Vec::new() } else { unsafe { std::slice::from_raw_parts(s.ptr as *const u8, s.len) }.to_vec() }
}

fn name_str(name: &[u8]) -> Result<&str, String> {
    std::str::from_utf8(name).map_err(|e| e.to_string())
}

fn do_call(st: &mut TaskState, sh: &Shared, call: &Call) {
    let scheme: &'static ffi::Scheme = sh.scheme;
    st.call_failed = false;
    match call {
        Call::Parse(bytes) => {
            let fname = "wirefilter_parse_filter";
            match std::str::from_utf8(bytes) {
                Err(e) => {
                    kernel::count("c20.non_utf8");
                    let r = seams::with_caller_buffer(bytes, |p, n| ffi::wirefilter_parse_filter(scheme, p.cast(), n));
                    if r.status != Status::Error || r.ast.is_some() {
                        mismatch(st, fname, "status", format!("non-UTF-8 input gave {:?}", r.status));
                    }
                    failing(st, fname, ExpErr::Exact(subst(&e.to_string())));
                }
                Ok(text) => {
                    let reference = catch_unwind(AssertUnwindSafe(|| scheme.parse(text).map_err(|e| e.to_string())));
                    let Ok(reference) = reference else {
                        kernel::count("c20.skipped_reference_panic");
                        return;
                    };
                    // the caller's text buffer is overwritten as soon as the call returns
                    let r = seams::with_caller_buffer(bytes, |p, n| ffi::wirefilter_parse_filter(scheme, p.cast(), n));
                    match reference {
                        Ok(ast) => {
                            kernel::count("c20.parse_ok");
                            st.ok_calls += 1;
                            match (r.status, r.ast) {
                                (Status::Success, Some(cast)) => {
                                    if **cast != ast {
                                        mismatch(st, fname, "ast", format!("`{text}`: C API AST {:?}, Rust API AST {:?}", **cast, ast));
                                    }
                                    st.ast = Some(cast);
                                }
                                (s, _) => mismatch(st, fname, "status", format!("`{text}` parses with the Rust API but the C API says {s:?}")),
                            }
                        }
                        Err(msg) => {
                            kernel::count("c20.parse_err");
                            if msg.contains('\0') {
                                kernel::count("c20.nul_in_error");
                            }
                            if r.status != Status::Error || r.ast.is_some() {
                                mismatch(st, fname, "status", format!("`{text}` is rejected by the Rust API but the C API says {:?}", r.status));
                            }
                            failing(st, fname, ExpErr::Exact(subst(&msg)));
                        }
                    }
                }
            }
            verify_last_error(st, fname);
        }
        Call::SerializeAst => {
            let fname = "wirefilter_serialize_filter_to_json";
            let Some(ast) = &st.ast else { return };
            let want = serde_json::to_string(&***ast).unwrap();
            let r = ffi::wirefilter_serialize_filter_to_json(ast);
            let got = ras_bytes(&r.json);
            if r.status != Status::Success || got != want.as_bytes() {
                mismatch(st, fname, "json", format!("C API {:?} / {:?}, Rust API {want}", r.status, String::from_utf8_lossy(&got)));
            }
            ffi::wirefilter_free_string(r.json);
            st.ok_calls += 1;
            verify_last_error(st, fname);
        }
        Call::Hash => {
            let fname = "wirefilter_get_filter_hash";
            let Some(ast) = &st.ast else { return };
            let json = serde_json::to_string(&***ast).unwrap();
            let r = ffi::wirefilter_get_filter_hash(ast);
            kernel::count("c20.hash");
            // "equal hashes for equal JSON": which function of the JSON the hash is, the statement does not say (today
            // FNV-1a of the text; counted, not demanded). Demanded: success, the same answer when asked again, and the
            // same answer for another AST object with the same JSON (a copy living at another address).
            if r.hash == fnv_bytes(FNV_OFFSET, json.as_bytes()) {
                kernel::count("c20.hash_is_fnv1a_of_json");
            }
            let again = ffi::wirefilter_get_filter_hash(ast);
            let copy: Box<ffi::FilterAst> = Box::new(ffi::FilterAst::from((***ast).clone()));
            let copy_json = serde_json::to_string(&**copy).unwrap();
            let of_copy = ffi::wirefilter_get_filter_hash(&copy);
            if r.status != Status::Success || again.status != Status::Success || of_copy.status != Status::Success {
                mismatch(st, fname, "hash", format!("C API status {:?} / {:?} / {:?} for an AST the Rust API serializes", r.status, again.status, of_copy.status));
            } else if again.hash != r.hash {
                mismatch(st, fname, "hash", format!("the same AST hashed twice: {:#x}, then {:#x}", r.hash, again.hash));
            } else if copy_json == json && of_copy.hash != r.hash {
                mismatch(st, fname, "hash", format!("two ASTs with the same JSON {json}: {:#x} and {:#x}", r.hash, of_copy.hash));
            }
            let known = seams::harness(|h| h.hashes.insert(json.clone(), r.hash));
            if let Some(prev) = known {
                if prev != r.hash {
                    mismatch(st, fname, "hash", format!("JSON {json} hashed to {prev:#x} earlier in this run, now to {:#x}", r.hash));
                }
            }
            st.ok_calls += 1;
            verify_last_error(st, fname);
        }
        Call::Uses(name) | Call::UsesList(name) => {
            let list = matches!(call, Call::UsesList(_));
            let fname = if list { "wirefilter_filter_uses_list" } else { "wirefilter_filter_uses" };
            let Some(ast) = &st.ast else { return };
            let r = seams::with_caller_buffer(name, |p, n| if list { ffi::wirefilter_filter_uses_list(ast, p.cast(), n) } else { ffi::wirefilter_filter_uses(ast, p.cast(), n) });
            match name_str(name) {
                Err(e) => {
                    if r.status != Status::Error || r.used {
                        mismatch(st, fname, "status", format!("non-UTF-8 name gave {:?}", r.status));
                    }
                    failing(st, fname, ExpErr::Exact(subst(&e)));
                }
                Ok(n) => {
                    let reference = if list { ast.uses_list(n) } else { ast.uses(n) };
                    match reference {
                        Ok(b) => {
                            st.ok_calls += 1;
                            if r.status != Status::Success || r.used != b {
                                mismatch(st, fname, "result", format!("{n:?}: C API {:?}/{}, Rust API {b}", r.status, r.used));
                            }
                        }
                        Err(e) => {
                            if r.status != Status::Error || r.used {
                                mismatch(st, fname, "status", format!("{n:?}: Rust API error, C API {:?}", r.status));
                            }
                            failing(st, fname, ExpErr::Exact(subst(&e.to_string())));
                        }
                    }
                }
            }
            verify_last_error(st, fname);
        }
        Call::Compile => {
            let fname = "wirefilter_compile_filter";
            let Some(ast) = st.ast.take() else { return };
            let text = format!("{:?}", **ast);
            let reference = (**ast).clone().compile();
            let r = ffi::wirefilter_compile_filter(ast);
            match (r.status, r.filter) {
                (Status::Success, Some(f)) => {
                    st.ok_calls += 1;
                    st.filter = Some((f, reference, text));
                }
                (s, _) => mismatch(st, fname, "status", format!("compile gave {s:?}")),
            }
            verify_last_error(st, fname);
        }
        Call::SetInt(..) | Call::SetBytes(..) | Call::SetIp4(..) | Call::SetIp6(..) | Call::SetBool(..) => {
            let (fname, name): (&'static str, &Vec<u8>) = match call {
                Call::SetInt(n, _) => ("wirefilter_add_int_value_to_execution_context", n),
                Call::SetBytes(n, _) => ("wirefilter_add_bytes_value_to_execution_context", n),
                Call::SetIp4(n, _) => ("wirefilter_add_ipv4_value_to_execution_context", n),
                Call::SetIp6(n, _) => ("wirefilter_add_ipv6_value_to_execution_context", n),
                Call::SetBool(n, _) => ("wirefilter_add_bool_value_to_execution_context", n),
                _ => unreachable!(),
            };
            // the field name lives in a caller buffer that is overwritten after the call
            let name_buf: Box<[u8]> = name.clone().into_boxed_slice();
            let np = name_buf.as_ptr().cast();
            let nl = name_buf.len();
            let got = match call {
                Call::SetInt(_, x) => ffi::wirefilter_add_int_value_to_execution_context(&mut st.ctx, np, nl, *x),
                Call::SetBytes(_, b) => {
                    // the C API borrows the caller's buffer: keep it alive for the rest of the process
                    let buf: &'static [u8] = Box::leak(b.clone().into_boxed_slice());
                    st.arena.push(buf);
                    ffi::wirefilter_add_bytes_value_to_execution_context(&mut st.ctx, np, nl, buf.as_ptr(), buf.len())
                }
                Call::SetIp4(_, a) => ffi::wirefilter_add_ipv4_value_to_execution_context(&mut st.ctx, np, nl, a),
                Call::SetIp6(_, a) => ffi::wirefilter_add_ipv6_value_to_execution_context(&mut st.ctx, np, nl, a),
                Call::SetBool(_, b) => ffi::wirefilter_add_bool_value_to_execution_context(&mut st.ctx, np, nl, *b),
                _ => unreachable!(),
            };
            {
                let mut nb = name_buf;
                for b in nb.iter_mut() {
                    *b = b'#';
                }
                seams::harness(|h| h.arena.push(nb));
            }
            match name_str(name) {
                Err(e) => {
                    if got {
                        mismatch(st, fname, "result", "non-UTF-8 name accepted".into());
                    }
                    failing(st, fname, ExpErr::Exact(subst(&e)));
                    kernel::count("c20.setter_fail");
                }
                Ok(n) => {
                    let reference = match call {
                        Call::SetInt(_, x) => st.shadow.set_field_value_from_name(n, *x).map(|_| ()),
                        Call::SetBytes(_, _) => {
                            let buf = *st.arena.last().unwrap();
                            st.shadow.set_field_value_from_name(n, buf).map(|_| ())
                        }
                        Call::SetIp4(_, a) => st.shadow.set_field_value_from_name(n, std::net::IpAddr::from(*a)).map(|_| ()),
                        Call::SetIp6(_, a) => st.shadow.set_field_value_from_name(n, std::net::IpAddr::from(*a)).map(|_| ()),
                        Call::SetBool(_, b) => st.shadow.set_field_value_from_name(n, *b).map(|_| ()),
                        _ => unreachable!(),
                    };
                    match reference {
                        Ok(()) => {
                            st.ok_calls += 1;
                            if !got {
                                mismatch(st, fname, "result", format!("{n:?}: Rust API Ok, C API false"));
                            } else if **st.ctx != st.shadow {
                                mismatch(st, fname, "state", format!("{n:?}: after the setter the C context holds {} but the Rust API context holds {}", serde_json::to_string(&**st.ctx).unwrap_or_default(), serde_json::to_string(&st.shadow).unwrap_or_default()));
                            }
                        }
                        Err(e) => {
                            kernel::count("c20.setter_fail");
                            if got {
                                mismatch(st, fname, "result", format!("{n:?}: Rust API {e}, C API true"));
                            }
                            failing(st, fname, ExpErr::Exact(subst(&e.to_string())));
                        }
                    }
                }
            }
            verify_last_error(st, fname);
        }
        Call::SetJson(name, json) => {
            let fname = "wirefilter_add_json_value_to_execution_context";
            let got = seams::with_caller_buffer(json, |p, n| ffi::wirefilter_add_json_value_to_execution_context(&mut st.ctx, name.as_ptr().cast(), name.len(), p, n));
            match name_str(name) {
                Err(e) => {
                    if got {
                        mismatch(st, fname, "result", "non-UTF-8 name accepted".into());
                    }
                    failing(st, fname, ExpErr::Exact(subst(&e)));
                }
                Ok(n) => {
                    let reference: Result<(), String> = (|| {
                        let ty = wirefilter::GetType::get_type(&scheme.get_field(n).map_err(|e| e.to_string())?);
                        let value = ty.deserialize_value(&mut serde_json::Deserializer::from_reader(&json[..])).map_err(|e| e.to_string())?;
                        st.shadow.set_field_value_from_name(n, value).map(|_| ()).map_err(|e| e.to_string())
                    })();
                    match reference {
                        Ok(()) => {
                            st.ok_calls += 1;
                            if !got {
                                mismatch(st, fname, "result", format!("{n:?}={}: Rust API Ok, C API false", String::from_utf8_lossy(json)));
                            } else if **st.ctx != st.shadow {
                                mismatch(st, fname, "state", format!("{n:?}={}: contexts differ after the call (and after the caller reused its buffer)", String::from_utf8_lossy(json)));
                            }
                        }
                        Err(e) => {
                            kernel::count("c20.setter_fail");
                            if got {
                                mismatch(st, fname, "result", format!("{n:?}={}: Rust API {e}, C API true", String::from_utf8_lossy(json)));
                            }
                            failing(st, fname, ExpErr::Exact(subst(&e)));
                        }
                    }
                }
            }
            verify_last_error(st, fname);
        }
        Call::CtxSerialize => {
            let fname = "wirefilter_serialize_execution_context_to_json";
            let want = serde_json::to_string(&st.shadow).unwrap();
            let r = ffi::wirefilter_serialize_execution_context_to_json(&mut st.ctx);
            let got = ras_bytes(&r.json);
            if r.status != Status::Success || got != want.as_bytes() {
                mismatch(st, fname, "json", format!("C API {:?} / {}, Rust API {want}", r.status, String::from_utf8_lossy(&got)));
            }
            ffi::wirefilter_free_string(r.json);
            st.ok_calls += 1;
            verify_last_error(st, fname);
        }
        Call::CtxDeserialize(doc) => {
            let fname = "wirefilter_deserialize_json_to_execution_context";
            let bytes = match doc {
                Doc::Good(b) | Doc::Truncated(b) | Doc::Corrupt(b) | Doc::Raw(b) => b,
            };
            let reference = catch_unwind(AssertUnwindSafe(|| {
                let mut d = serde_json::Deserializer::from_reader(&bytes[..]);
                (&mut st.shadow).deserialize(&mut d).map_err(|e| e.to_string())
            }));
            let reference = match reference {
                Ok(r) => r,
                Err(p) => {
                    // the C function is not inside catch_panic: this would abort the process
                    kernel::fail(v("deserialize-would-abort", seams::panic_class(&kernel::panic_message(&*p)), format!("document {} makes the engine panic", String::from_utf8_lossy(bytes))));
                    return;
                }
            };
            let got = seams::with_caller_buffer(bytes, |p, n| ffi::wirefilter_deserialize_json_to_execution_context(&mut st.ctx, p, n));
            match reference {
                Ok(()) => {
                    st.ok_calls += 1;
                    if !got {
                        mismatch(st, fname, "result", format!("Rust API Ok, C API false for {}", String::from_utf8_lossy(bytes)));
                    }
                }
                Err(e) => {
                    kernel::count("c20.deser_fail");
                    if got {
                        mismatch(st, fname, "result", format!("Rust API {e}, C API true"));
                    }
                    failing(st, fname, ExpErr::Exact(subst(&e)));
                }
            }
            if **st.ctx != st.shadow {
                mismatch(st, fname, "state", "contexts differ after deserialization".into());
            }
            verify_last_error(st, fname);
        }
        Call::Match | Call::MatchBoom(_) | Call::MatchMissingMandatory => {
            let fname = "wirefilter_match";
            // pick the filter
            let (cf, rf, text): (Box<ffi::Filter>, wirefilter::Filter, String) = match call {
                Call::Match => match st.filter.take() {
                    Some(x) => x,
                    None => return,
                },
                Call::MatchBoom(_) => match &sh.boom_filter_text {
                    Some(t) => {
                        let a = scheme.parse(t).unwrap();
                        (Box::new(ffi::Filter::from(a.clone().compile())), a.compile(), t.clone())
                    }
                    None => return,
                },
                _ => match &sh.mandatory_filter_text {
                    Some(t) => {
                        let a = scheme.parse(t).unwrap();
                        (Box::new(ffi::Filter::from(a.clone().compile())), a.compile(), t.clone())
                    }
                    None => return,
                },
            };
            let use_empty_ctx = matches!(call, Call::MatchMissingMandatory);
            let empty_c;
            let empty_shadow;
            let (cctx, shadow): (&ffi::ExecutionContext<'static>, &wirefilter::ExecutionContext<'static>) = if use_empty_ctx {
                empty_c = ffi::wirefilter_create_execution_context(scheme);
                empty_shadow = wirefilter::ExecutionContext::new(scheme);
                (&*empty_c, &empty_shadow)
            } else {
                (&*st.ctx, &st.shadow)
            };
            let reference = catch_unwind(AssertUnwindSafe(|| rf.execute(shadow)));
            let natural_panic = reference.as_ref().err().map(|p| kernel::panic_message(&**p));
            if (natural_panic.is_some() || matches!(call, Call::MatchBoom(_))) && !st.catcher {
                // would unwind into extern "C" and abort by language rule: outside the property
                kernel::count("c20.skipped_panic_without_catcher");
                if matches!(call, Call::Match) {
                    st.filter = Some((cf, rf, text));
                }
                return;
            }
            let fired_before = seams::fired_panics().len();
            if let Call::MatchBoom(nth) = call {
                seams::arm_panic("fn.boom", *nth);
            }
            let r = ffi::wirefilter_match(&cf, cctx);
            seams::disarm_all();
            let fired = seams::fired_panics();
            if fired.len() > fired_before {
                kernel::count("c20.status_panic");
                if r.status != Status::Panic || r.matched {
                    mismatch(st, fname, "status", format!("`{text}`: injected callback panic reported as {:?}/{}", r.status, r.matched));
                }
                failing(st, fname, ExpErr::Contains(fired.last().unwrap().clone()));
            } else {
                match (reference, natural_panic) {
                    (_, Some(msg)) => {
                        kernel::count("c20.status_panic");
                        if r.status != Status::Panic || r.matched {
                            mismatch(st, fname, "status", format!("`{text}`: engine panic ({msg}) reported as {:?}/{}", r.status, r.matched));
                        }
                        failing(st, fname, ExpErr::Contains(msg.lines().next().unwrap_or("").to_string()));
                    }
                    (Ok(Ok(b)), None) => {
                        kernel::count("c20.match_ok");
                        st.ok_calls += 1;
                        if r.status != Status::Success || r.matched != b {
                            mismatch(st, fname, "result", format!("`{text}`: C API {:?}/{}, Rust API {b}", r.status, r.matched));
                        }
                    }
                    (Ok(Err(e)), None) => {
                        if r.status != Status::Error || r.matched {
                            mismatch(st, fname, "status", format!("`{text}`: Rust API {e}, C API {:?}", r.status));
                        }
                        failing(st, fname, ExpErr::Exact(subst(&e.to_string())));
                    }
                    (Err(_), None) => unreachable!(),
                }
            }
            if matches!(call, Call::Match) {
                st.filter = Some((cf, rf, text));
            }
            verify_last_error(st, fname);
        }
        Call::MatchShared => {
            let fname = "wirefilter_match";
            let r = ffi::wirefilter_match(&sh.shared_filter, &sh.shared_ctx);
            match &sh.shared_expect {
                Ok(b) => {
                    st.ok_calls += 1;
                    kernel::count("c20.match_ok");
                    if r.status != Status::Success || r.matched != *b {
                        mismatch(st, fname, "shared", format!("`{}` on the shared context: C API {:?}/{}, Rust API {b}", sh.shared_filter_text, r.status, r.matched));
                    }
                }
                Err(_) => {}
            }
            verify_last_error(st, fname);
        }
        Call::FailBurst(n) => {
            let fname = "wirefilter_parse_filter";
            for i in 0..*n {
                let text = format!("nope{i} == {}", "1".repeat(1 + i % 40));
                let r = ffi::wirefilter_parse_filter(scheme, text.as_ptr().cast(), text.len());
                if r.status != Status::Error || r.ast.is_some() {
                    mismatch(st, fname, "status", format!("`{text}` gave {:?}", r.status));
                    return;
                }
                if i + 1 == *n {
                    let want = scheme.parse(&text).expect_err("must fail").to_string();
                    failing(st, fname, ExpErr::Exact(subst(&want)));
                }
            }
            kernel::count("c20.fail_burst");
            verify_last_error(st, fname);
        }
        Call::MatchForeign => {
            let fname = "wirefilter_match";
            let r = ffi::wirefilter_match(&sh.foreign_filter, &st.ctx);
            kernel::count("c20.match_foreign");
            if r.status != Status::Error || r.matched {
                mismatch(st, fname, "foreign-scheme", format!("a filter of another (structurally identical) scheme gave {:?}/{}", r.status, r.matched));
            }
            failing(st, fname, ExpErr::Exact(subst(&wirefilter::SchemeMismatchError.to_string())));
            verify_last_error(st, fname);
        }
        Call::ParseBoom(nth) => {
            // a user function's parse-time callback (check_param) panics inside wirefilter_parse_filter
            let fname = "wirefilter_parse_filter";
            let Some(text) = &sh.boom_filter_text else { return };
            if !st.catcher {
                kernel::count("c20.skipped_panic_without_catcher");
                return;
            }
            let fired_before = seams::fired_panics().len();
            seams::arm_panic("fn.check_param", *nth);
            let r = ffi::wirefilter_parse_filter(scheme, text.as_ptr().cast(), text.len());
            seams::disarm_all();
            let fired = seams::fired_panics();
            if fired.len() > fired_before {
                kernel::count("c20.status_panic");
                kernel::count("c20.parse_panic");
                if r.status != Status::Panic || r.ast.is_some() {
                    mismatch(st, fname, "status", format!("`{text}`: a panic inside parse was reported as {:?}", r.status));
                }
                failing(st, fname, ExpErr::Contains(fired.last().unwrap().clone()));
            } else if r.status != Status::Success {
                mismatch(st, fname, "status", format!("`{text}` must parse when the armed callback was not reached: {:?}", r.status));
            }
            verify_last_error(st, fname);
        }
        Call::CompileBoom => {
            // a user function's compile callback panics inside wirefilter_compile_filter
            let fname = "wirefilter_compile_filter";
            let Some(text) = &sh.boom_filter_text else { return };
            if !st.catcher {
                kernel::count("c20.skipped_panic_without_catcher");
                return;
            }
            let ast = Box::new(ffi::FilterAst::from(scheme.parse(text).unwrap()));
            let fired_before = seams::fired_panics().len();
            seams::arm_panic("fn.compile", 1);
            let r = ffi::wirefilter_compile_filter(ast);
            seams::disarm_all();
            let fired = seams::fired_panics();
            if fired.len() > fired_before {
                kernel::count("c20.status_panic");
                kernel::count("c20.compile_panic");
                if r.status != Status::Panic || r.filter.is_some() {
                    mismatch(st, fname, "status", format!("`{text}`: a panic inside compile was reported as {:?}", r.status));
                }
                failing(st, fname, ExpErr::Contains(fired.last().unwrap().clone()));
            } else if r.status != Status::Success {
                mismatch(st, fname, "status", format!("{:?}", r.status));
            }
            verify_last_error(st, fname);
        }
        Call::ClearLastError => {
            ffi::wirefilter_clear_last_error();
            st.last_err = ExpErr::None;
            verify_last_error(st, "wirefilter_clear_last_error");
        }
        Call::EnableCatcher => {
            ffi::panic::wirefilter_enable_panic_catcher();
            st.catcher = true;
            verify_last_error(st, "wirefilter_enable_panic_catcher");
        }
        Call::DisableCatcher => {
            ffi::panic::wirefilter_disable_panic_catcher();
            st.catcher = false;
            verify_last_error(st, "wirefilter_disable_panic_catcher");
        }
        Call::BadFallbackMode(m) => {
            let fname = "wirefilter_set_panic_catcher_fallback_mode";
            let ok = ffi::panic::wirefilter_set_panic_catcher_fallback_mode(*m);
            if ok {
                mismatch(st, fname, "result", format!("mode {m} accepted"));
            }
            failing(st, fname, ExpErr::Exact(format!("Invalid fallback mode {m}").into_bytes()));
            verify_last_error(st, fname);
        }
        Call::SchemeJson => {
            let fname = "wirefilter_serialize_scheme_to_json";
            let want = serde_json::to_string(&**scheme).unwrap();
            let r = ffi::wirefilter_serialize_scheme_to_json(scheme);
            let got = ras_bytes(&r.json);
            if r.status != Status::Success || got != want.as_bytes() {
                mismatch(st, fname, "json", format!("C API {:?}/{}, Rust API {want}", r.status, String::from_utf8_lossy(&got)));
            }
            ffi::wirefilter_free_string(r.json);
            st.ok_calls += 1;
            verify_last_error(st, fname);
        }
    }
}

fn ctype_of(t: &MType) -> CType {
    match t {
        MType::Ip => ffi::wirefilter_create_primitive_type(CPrimitiveType::Ip),
        MType::Bytes => ffi::wirefilter_create_primitive_type(CPrimitiveType::Bytes),
        MType::Int => ffi::wirefilter_create_primitive_type(CPrimitiveType::Int),
        MType::Bool => ffi::wirefilter_create_primitive_type(CPrimitiveType::Bool),
        MType::Array(i) => ffi::wirefilter_create_array_type(ctype_of(i)),
        MType::Map(i) => ffi::wirefilter_create_map_type(ctype_of(i)),
    }
}

fn gen_name(spec: &SchemeSpec) -> Vec<u8> {
    match choose_w(&[8, 2, 1, 1], "name.kind") {
        0 if !spec.fields.is_empty() => spec.fields[choose(spec.fields.len(), "name.field")].0.clone().into_bytes(),
        1 => b"no.such.field".to_vec(),
        2 => vec![b'a', 0xff, b'b'],
        _ => b"nul\0name".to_vec(),
    }
}

fn gen_text(spec: &SchemeSpec, pool: &[MValue]) -> Vec<u8> {
    let mut t = gen_text_core(spec, pool);
    if chance(1, 12, "text.nest") {
        // nested to a depth around the limits a parser may have (the Rust API on the same text is the reference)
        kernel::count("c20.deeply_nested_text");
        let k = [1usize, 15, 16, 17, 31, 32, 33, 63, 64, 65, 127, 128, 129, 200][choose(14, "text.nest_k")];
        let mut x = if chance(1, 2, "text.nest_kind") { b"(".repeat(k) } else { b"not ".repeat(k) };
        let close = x.first() == Some(&b'(');
        x.extend_from_slice(&t);
        if close {
            x.extend_from_slice(&b")".repeat(k));
        }
        t = x;
    }
    // leading / trailing blanks and line breaks: positions in error messages are relative to the caller's text
    match choose_w(&[6, 1, 1, 1, 1], "text.blank") {
        1 => {
            let mut x = b"  ".to_vec();
            x.extend_from_slice(&t);
            t = x;
        }
        2 => {
            let mut x = b"\n\n".to_vec();
            x.extend_from_slice(&t);
            t = x;
        }
        3 => t.extend_from_slice(b"   "),
        4 => {
            let mut x = b" \t\n ".to_vec();
            x.extend_from_slice(&t);
            x.extend_from_slice(b" \n");
            t = x;
        }
        _ => {}
    }
    t
}

fn gen_text_core(spec: &SchemeSpec, pool: &[MValue]) -> Vec<u8> {
    let good = wgen::gen_filter(spec, pool, 2).unwrap_or_else(|| "ssl".to_string());
    match choose_w(&[8, 2, 2, 1, 1, 1, 1], "text.kind") {
        0 => good.into_bytes(),
        6 => {
            // a long filter (JSON well beyond common buffer sizes) with non-ASCII literals
            let n = range(20, 70, "text.long_n");
            let mut parts = vec![good];
            for i in 0..n {
                let lit = ["é", "naïve-€", "plain", "\u{1F600}"][i % 4];
                match wgen::gen_filter(spec, pool, 1) {
                    Some(f) if i % 3 != 0 => parts.push(format!("({f})")),
                    _ => {
                        if let Some((name, _, _)) = spec.fields.iter().find(|(_, t, _)| *t == MType::Bytes) {
                            parts.push(format!("{name} == \"{lit}{i}\""));
                        }
                    }
                }
            }
            parts.join(" or ").into_bytes()
        }
        1 => {
            // ill-typed / unknown
            let pool = ["http.host > 3", "tcp.port == \"x\"", "nope == 1", "ssl and", "http.host matches \"(\"", "ip.src in {1}", "", "   ", "ssl and\n  nope"];
            pool[choose(pool.len(), "text.bad")].as_bytes().to_vec()
        }
        2 => {
            // random mutation of a good text
            let mut b = good.into_bytes();
            if !b.is_empty() {
                let at = choose(b.len(), "text.mut_at");
                if chance(1, 2, "text.mut_del") {
                    b.remove(at);
                } else {
                    b.insert(at, b"()\"=$*&x9 "[choose(10, "text.mut_ch")]);
                }
            }
            b
        }
        3 | 4 => {
            // NUL bytes at a tape-chosen place of a (usually failing) text: the error message quotes the
            // offending line, so the NUL lands at the start / middle / end of one of the formatter's chunks
            let base = if chance(1, 2, "nul.base_bad") { "nope == 1".to_string() } else { format!("{good} !") };
            let mut b = base.into_bytes();
            match choose(5, "nul.where") {
                0 => b.insert(0, 0),
                1 => b.push(0),
                2 => {
                    let at = choose(b.len() + 1, "nul.at");
                    b.insert(at, 0);
                }
                3 => {
                    // second line starts with NUL
                    let mut x = b"ssl and\n".to_vec();
                    x.push(0);
                    x.extend_from_slice(&b);
                    b = x;
                }
                _ => {
                    b.insert(0, 0);
                    b.push(0);
                    let at = choose(b.len(), "nul.at");
                    b.insert(at, 0);
                }
            }
            b
        }
        _ => {
            let mut b = good.into_bytes();
            b.push(0xff);
            b
        }
    }
}

fn gen_calls(spec: &SchemeSpec, pool: &[MValue], n: usize, docs: &[Doc]) -> Vec<Call> {
    let mut out = Vec::new();
    for _ in 0..n {
        let c = match choose_w(&[16, 4, 4, 4, 4, 8, 12, 6, 4, 6, 10, 6, 4, 4, 4, 4, 4, 2, 2, 4, 2, 2, 1], "call.kind") {
            0 => Call::Parse(gen_text(spec, pool)),
            1 => Call::SerializeAst,
            2 => Call::Hash,
            3 => Call::Uses(gen_name(spec)),
            4 => Call::UsesList(gen_name(spec)),
            5 => Call::Compile,
            6 => {
                let name = gen_name(spec);
                match choose(5, "set.kind") {
                    0 => Call::SetInt(name, crate::model::gen_int()),
                    1 => Call::SetBytes(name, crate::model::gen_bytes()),
                    2 => Call::SetIp4(name, [10, 0, choose(256, "ip.b") as u8, 1]),
                    3 => {
                        let mut a = [0u8; 16];
                        a[15] = choose(256, "ip.b") as u8;
                        a[0] = 0x20;
                        Call::SetIp6(name, a)
                    }
                    _ => Call::SetBool(name, chance(1, 2, "set.bool")),
                }
            }
            7 => {
                let name = gen_name(spec);
                let json = match std::str::from_utf8(&name).ok().and_then(|n| spec.field_index(n)) {
                    Some(i) if chance(3, 4, "json.right") => {
                        let val = gen_value(&spec.fields[i].1, 3);
                        if chance(1, 4, "json.raw") {
                            // byte strings written raw inside string literals (the buffer is bytes, not text)
                            kernel::count("c20.raw_json");
                            let mut out = Vec::new();
                            crate::model::raw_json(&val, &mut out);
                            out
                        } else {
                            serde_json::to_vec(&val.to_lhs().unwrap()).unwrap()
                        }
                    }
                    _ if chance(1, 2, "json.nearmiss") => {
                        // texts a lenient scalar reader takes and a JSON reader does not (and the other way round):
                        // the Rust API on the same bytes says which
                        kernel::count("c20.nearmiss_json");
                        let pre: [&[u8]; 12] = [b"", b"", b"+", b"-", b" ", b"\t\n", b"\x0b", b"\x0c", "\u{a0}".as_bytes(), "\u{2003}".as_bytes(), b"0", b"00"];
                        let core: [&[u8]; 14] = [b"7", b"0", b"true", b"false", b"null", b"9223372036854775807", b"9223372036854775808", b"1e2", b"1.5", b"0x1f", b"TRUE", b"tru", b"\"7\"", b"1_000"];
                        let post: [&[u8]; 10] = [b"", b"", b" ", b"\r\n", b"\x0b", b"\x0c", "\u{a0}".as_bytes(), b",", b"\0", b" 1"];
                        let mut out = pre[choose(12, "json.nm_pre")].to_vec();
                        out.extend_from_slice(core[choose(14, "json.nm_core")]);
                        out.extend_from_slice(post[choose(10, "json.nm_post")]);
                        out
                    }
                    _ => {
                        let pool: [&[u8]; 6] = [b"1", b"\"s\"", b"[1,\"a\"]", b"{\"k\":1}", b"nul", b"[[\"k\",\"v\"]]"];
                        pool[choose(6, "json.pool")].to_vec()
                    }
                };
                Call::SetJson(name, json)
            }
            8 => Call::CtxSerialize,
            9 => {
                if docs.is_empty() {
                    Call::CtxSerialize
                } else {
                    docs[choose(docs.len(), "doc.pick")].clone()
                        .into()
                }
            }
            10 => Call::Match,
            11 => Call::MatchShared,
            12 => Call::MatchBoom(1 + choose(2, "boom.nth") as u32),
            13 => Call::MatchMissingMandatory,
            14 => Call::ClearLastError,
            15 => Call::EnableCatcher,
            16 => Call::DisableCatcher,
            17 => Call::BadFallbackMode(2 + choose(250, "fb.mode") as u8),
            18 => Call::SchemeJson,
            19 => Call::ParseBoom(1 + choose(2, "pboom.nth") as u32),
            20 => Call::CompileBoom,
            21 => Call::MatchForeign,
            _ => Call::FailBurst([2usize, 33, 130, 300][choose(4, "burst.n")]),
        };
        out.push(c);
    }
    out
}

impl From<Doc> for Call {
    fn from(d: Doc) -> Call {
        Call::CtxDeserialize(d)
    }
}

fn render_call(c: &Call) -> String {
    let s = |b: &Vec<u8>| String::from_utf8_lossy(b).chars().take(60).collect::<String>();
    match c {
        Call::Parse(t) => format!("parse({:?})", s(t)),
        Call::Uses(n) => format!("uses({:?})", s(n)),
        Call::UsesList(n) => format!("uses_list({:?})", s(n)),
        Call::SetInt(n, x) => format!("set_int({:?},{x})", s(n)),
        Call::SetBytes(n, b) => format!("set_bytes({:?},{:?})", s(n), s(b)),
        Call::SetIp4(n, a) => format!("set_ipv4({:?},{a:?})", s(n)),
        Call::SetIp6(n, _) => format!("set_ipv6({:?},..)", s(n)),
        Call::SetBool(n, b) => format!("set_bool({:?},{b})", s(n)),
        Call::SetJson(n, j) => format!("set_json({:?},{})", s(n), s(j)),
        Call::CtxDeserialize(d) => match d {
            Doc::Good(b) => format!("deserialize(good {}B)", b.len()),
            Doc::Truncated(b) => format!("deserialize(truncated {}B)", b.len()),
            Doc::Corrupt(b) => format!("deserialize(corrupt {}B)", b.len()),
            Doc::Raw(b) => format!("deserialize(raw byte strings {}B)", b.len()),
        },
        other => format!("{other:?}"),
    }
}

fn run(ctx: &RunCtx) -> Result<(), Violation> {
    seams::reset(ctx.run);
    let scenario = choose(3, "scenario");
    // the catcher's hook chains to the worker's quiet hook; installed once per process
    ffi::panic::wirefilter_set_panic_catcher_hook();
    ffi::wirefilter_clear_last_error();
    ffi::panic::wirefilter_disable_panic_catcher();

    // ---- scheme through the C API (mandatory fields, always / never lists) and the Rust builder behind it (optional fields, plug-ins)
    let mut spec = wgen::scheme_family([1usize, 2, 3][choose_w(&[4, 2, 4], "scheme.family")]);
    spec.lists = wgen::gen_lists(false);
    let mut main = MainModel { last_err: ExpErr::None };
    let mut builder = ffi::wirefilter_create_scheme_builder();
    let mut ref_builder = wirefilter::SchemeBuilder::new();
    for (name, ty, optional) in &spec.fields {
        if *optional {
            builder.add_optional_field(name, ty.to_type()).unwrap();
            ref_builder.add_optional_field(name, ty.to_type()).unwrap();
        } else {
            let ok = ffi::wirefilter_add_type_field_to_scheme(&mut builder, name.as_ptr().cast(), name.len(), ctype_of(ty));
            ref_builder.add_field(name, ty.to_type()).unwrap();
            if !ok {
                return Err(v("differs-from-rust-api", "wirefilter_add_type_field_to_scheme/result", format!("adding {name} failed")));
            }
        }
        // failing additions
        if chance(1, 6, "scheme.dup") {
            let ok = ffi::wirefilter_add_type_field_to_scheme(&mut builder, name.as_ptr().cast(), name.len(), ctype_of(&MType::Int));
            let e = ref_builder.add_field(name, wirefilter::Type::Int).expect_err("duplicate").to_string();
            main.expect_failure("wirefilter_add_type_field_to_scheme", ok, &e)?;
        }
    }
    if chance(1, 3, "scheme.nulname") {
        // a name with NUL bytes (valid UTF-8): registered through the Rust builder, redefined through the C API;
        // the redefinition error quotes the name
        let name: &[u8] = [&b"\0f"[..], &b"f\0"[..], &b"a\0b"[..], &b"\0"[..]][choose(4, "scheme.nulname_kind")];
        let n = std::str::from_utf8(name).unwrap();
        builder.add_optional_field(n, wirefilter::Type::Int).unwrap();
        ref_builder.add_optional_field(n, wirefilter::Type::Int).unwrap();
        let ok = ffi::wirefilter_add_type_field_to_scheme(&mut builder, name.as_ptr().cast(), name.len(), ctype_of(&MType::Int));
        let e = ref_builder.add_field(n, wirefilter::Type::Int).expect_err("duplicate").to_string();
        kernel::count("c20.nul_in_error");
        main.expect_failure("wirefilter_add_type_field_to_scheme", ok, &e)?;
    }
    if chance(1, 3, "scheme.badname") {
        let bad = [b'x', 0xc3, 0x28];
        let ok = ffi::wirefilter_add_type_field_to_scheme(&mut builder, bad.as_ptr().cast(), bad.len(), ctype_of(&MType::Int));
        let e = std::str::from_utf8(&bad).unwrap_err().to_string();
        main.expect_failure("wirefilter_add_type_field_to_scheme", ok, &e)?;
    }
    for f in &spec.functions {
        if *f == "concat" {
            builder.add_function("concat", wirefilter::ConcatFunction::new()).unwrap();
        } else {
            builder.add_function(*f, seams::HookedFn(seams::function_def(f))).unwrap();
        }
    }
    for (ty, kind) in &spec.lists {
        let (ok, fname) = match kind {
            ListKind::Set => (builder.add_list(ty.to_type(), SetListDef { ty: ty.clone() }).is_ok(), "add_list"),
            ListKind::Always => (ffi::wirefilter_add_always_list_to_scheme(&mut builder, ctype_of(ty)), "wirefilter_add_always_list_to_scheme"),
            ListKind::Never => (ffi::wirefilter_add_never_list_to_scheme(&mut builder, ctype_of(ty)), "wirefilter_add_never_list_to_scheme"),
        };
        if !ok {
            return Err(v("differs-from-rust-api", format!("{fname}/result"), "adding a fresh list failed"));
        }
        ref_builder.add_list(ty.to_type(), wirefilter::NeverList {}).unwrap();
        if chance(1, 5, "scheme.duplist") {
            let ok = if chance(1, 2, "scheme.duplist_kind") {
                ffi::wirefilter_add_always_list_to_scheme(&mut builder, ctype_of(ty))
            } else {
                ffi::wirefilter_add_never_list_to_scheme(&mut builder, ctype_of(ty))
            };
            let e = ref_builder.add_list(ty.to_type(), wirefilter::NeverList {}).expect_err("duplicate list").to_string();
            main.expect_failure("wirefilter_add_list_to_scheme", ok, &e)?;
        }
    }
    let scheme_box = ffi::wirefilter_build_scheme(builder);
    // tasks need 'static borrows; the box is freed at the end of the run, after everything borrowing it
    let scheme: &'static ffi::Scheme = unsafe { &*(&*scheme_box as *const ffi::Scheme) };
    ffi::wirefilter_clear_last_error();

    // ---- shared read-only objects and generated inputs
    let model = wgen::gen_model_ctx(&spec, 3, false);
    let mut pool = Vec::new();
    for val in model.values.iter().flatten() {
        wgen::leaves(val, &mut pool);
    }
    let shared_engine_ctx = wgen::materialise(&spec, scheme, &model);
    let good_doc = serde_json::to_vec(&shared_engine_ctx).unwrap();
    let mut docs = vec![Doc::Good(good_doc.clone())];
    if good_doc.len() > 2 {
        docs.push(Doc::Truncated(good_doc[..choose(good_doc.len(), "doc.trunc")].to_vec()));
        let mut c = good_doc.clone();
        let at = choose(c.len(), "doc.flip_at");
        c[at] = b"{}[]\",:0x"[choose(9, "doc.flip_ch")];
        docs.push(Doc::Corrupt(c));
    }
    {
        // the same context with byte strings written raw inside string literals
        let mut raw = vec![b'{'];
        for (i, val) in model.values.iter().enumerate() {
            if let Some(val) = val {
                if raw.len() > 1 {
                    raw.push(b',');
                }
                raw.extend_from_slice(serde_json::to_string(&spec.fields[i].0).unwrap().as_bytes());
                raw.push(b':');
                crate::model::raw_json(val, &mut raw);
            }
        }
        raw.push(b'}');
        docs.push(Doc::Raw(raw));
    }
    // the value-tree defect (known finding of C14) does not apply here: the C API reads text
    let (shared_filter_text, shared_ast) = loop {
        let t = wgen::gen_filter(&spec, &pool, 2).unwrap_or_else(|| "ssl".into());
        if let Ok(a) = scheme.parse(&t) {
            break (t, a);
        }
        kernel::count("discarded_unparsable");
    };
    let shared_expect = catch_unwind(AssertUnwindSafe(|| shared_ast.clone().compile().execute(&shared_engine_ctx).unwrap())).map_err(|p| kernel::panic_message(&*p));
    let boom_filter_text = spec.functions.contains(&"boom").then(|| {
        let (f, _, _) = spec.fields.iter().find(|(_, t, _)| *t == MType::Bytes).cloned().unwrap_or(("http.host".into(), MType::Bytes, true));
        format!("boom({f}) == \"x\" or boom({f}) != \"y\"")
    });
    let mandatory_filter_text = spec.fields.iter().find(|(_, t, o)| !*o && matches!(t, MType::Int)).map(|(n, _, _)| format!("{n} == 1"));
    let twin = spec.build();
    let foreign_filter = {
        let t = twin.parse(&shared_filter_text).unwrap_or_else(|_| twin.parse("ssl").expect("twin parse"));
        ffi::Filter::from(t.compile())
    };
    let sh = Arc::new(Shared {
        foreign_filter,
        scheme,
        spec: spec.clone(),
        shared_filter: ffi::Filter::from(shared_ast.compile()),
        shared_filter_text,
        shared_ctx: ffi::ExecutionContext::from(shared_engine_ctx),
        shared_expect,
        boom_filter_text,
        mandatory_filter_text,
    });

    // ---- task programs (a function of the tape only)
    let max_calls = if ctx.tier == Tier::Thorough { 30 } else { 12 };
    let nt = match scenario {
        0 => 1 + choose_w(&[3, 3, 2, 1], "ntasks"),
        _ => 2,
    };
    let mut programs: Vec<Vec<Call>> = Vec::new();
    for t in 0..nt {
        let p = match scenario {
            // directed: a failing typed setter must replace last-error (D5); cross-task isolation of last-error
            1 => {
                if t == 0 {
                    vec![Call::Parse(b"nope == 1".to_vec()), Call::SetInt(b"no.such.field".to_vec(), 1), Call::ClearLastError, Call::SetBool(spec.fields[0].0.clone().into_bytes(), true), Call::SetBytes(spec.fields[0].0.clone().into_bytes(), b"x".to_vec())]
                } else {
                    vec![Call::Parse(b"ssl and".to_vec()), Call::Hash, Call::Parse(b"\xff".to_vec())]
                }
            }
            2 => vec![Call::EnableCatcher, Call::MatchMissingMandatory, Call::MatchBoom(1), Call::ParseBoom(1), Call::CompileBoom, Call::DisableCatcher, Call::Parse(format!("{} == \"a\0b\" !", "http.host").into_bytes())],
            _ => gen_calls(&spec, &pool, range(2, max_calls, "ncalls"), &docs),
        };
        programs.push(p);
    }
    let desc: Vec<Vec<String>> = programs.iter().map(|p| p.iter().map(render_call).collect()).collect();
    for (i, d) in desc.iter().enumerate() {
        crate::tr!("task {i}: {}", d.join("; "));
    }
    let totals = Arc::new(std::sync::Mutex::new((0u32, 0u32, 0u32)));
    let fns: Vec<kernel::TaskFn> = programs
        .into_iter()
        .enumerate()
        .map(|(i, p)| {
            let sh = sh.clone();
            let totals = totals.clone();
            Box::new(move || {
                let mut st = TaskState {
                    task: i,
                    last_err: ExpErr::None,
                    catcher: false,
                    ast: None,
                    filter: None,
                    ctx: ffi::wirefilter_create_execution_context(sh.scheme),
                    shadow: wirefilter::ExecutionContext::new(sh.scheme),
                    ok_calls: 0,
                    failed_calls: 0,
                    arena: Vec::new(),
                    call_failed: false,
                };
                let mut others_failed_between = 0;
                for c in &p {
                    kernel::point("c20.call");
                    if kernel::failed() {
                        break;
                    }
                    crate::tr!("t{i}: {}", render_call(c));
                    do_call(&mut st, &sh, c);
                    // a failure on another task between our call and this read-back must not show here
                    let before = FAIL_EPOCH.load(std::sync::atomic::Ordering::SeqCst);
                    kernel::point("c20.readback");
                    if FAIL_EPOCH.load(std::sync::atomic::Ordering::SeqCst) != before && st.last_err != ExpErr::None {
                        others_failed_between += 1;
                    }
                    verify_last_error(&mut st, "readback-after-switch");
                }
                if others_failed_between > 0 {
                    kernel::count("c20.cross_task_error");
                }
                let mut g = totals.lock().unwrap();
                g.0 += st.ok_calls;
                g.1 += st.failed_calls;
                // drop order: filter / ast / ctx before the scheme box (freed by main after join)
                drop(st);
            }) as kernel::TaskFn
        })
        .collect();
    let results = kernel::run_tasks(fns);
    for (i, r) in results.into_iter().enumerate() {
        if let Err(p) = r {
            return Err(v("task-died", seams::panic_class(&p), format!("task {i}: {p}")));
        }
    }
    let (ok_calls, failed_calls, _) = *totals.lock().unwrap();
    if ok_calls > 0 && failed_calls > 0 {
        kernel::set_nontrivial();
    }
    if ctx.want_sample {
        let s = sh.spec.describe();
        kernel::set_sample(move || serde_json::json!({"kind": "capi-call-histories", "scheme": s, "tasks": desc, "succeeding_calls_compared": ok_calls, "failing_calls_compared": failed_calls}));
    }
    drop(sh);
    ffi::wirefilter_free_scheme(scheme_box);
    Ok(())
}

struct MainModel {
    last_err: ExpErr,
}

impl MainModel {
    fn expect_failure(&mut self, fname: &'static str, ok: bool, engine_msg: &str) -> Result<(), Violation> {
        if ok {
            return Err(v("differs-from-rust-api", format!("{fname}/result"), format!("the Rust API fails with {engine_msg:?}, the C API returned true")));
        }
        self.last_err = ExpErr::Exact(subst(engine_msg));
        let got = read_last_error();
        let matches = match (&self.last_err, &got) {
            (ExpErr::Exact(w), Some(g)) => w == g,
            _ => false,
        };
        if !matches {
            kernel::fail(v(
                "last-error-not-replaced",
                fname,
                format!("{fname} failed; the engine's error is {engine_msg:?} but wirefilter_get_last_error() = {:?}", got.map(|g| String::from_utf8_lossy(&g).into_owned())),
            ));
        }
        Ok(())
    }
}
