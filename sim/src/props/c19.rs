//! C19 — the panic catcher returns results or panic text and never leaks state.

use crate::driver::{PropDef, RunCtx, Tier};
use crate::kernel::{self, Violation, chance, choose, choose_w, range};
use std::panic::{AssertUnwindSafe, catch_unwind};
use std::sync::Mutex;
use std::sync::atomic::{AtomicBool, Ordering};
use wirefilter::{
    PanicCatcherFallbackMode, catch_panic, panic_catcher_disable, panic_catcher_enable, panic_catcher_get_backtrace, panic_catcher_set_fallback_mode,
    panic_catcher_set_hook,
};

const FIXED: u32 = 10;

pub static DEF: PropDef = PropDef {
    id: "C19",
    engine: "wfsim panic",
    level: "exploration",
    rule: "one run = 1-3 tasks (real OS threads, one baton), each executing a generated structured program of <= 7 (quick) / <= 10 (thorough) steps over {enable, disable, install hook, set fallback Continue, query backtrace, catch_panic{..} nested <= 4 (optionally owning a value whose Drop enters a frame, or enters a frame that catches a panic of its own, while the outer panic unwinds), panic with a unique message (String / &'static str / non-string payload; long, multi-byte, control-character shapes), a panic recovered by a plain catch_unwind, a panic whose payload's own destructor panics, bursts of caught panics}, interleaved by the seeded scheduler between steps and at the in-repo points inside panic_catcher_set_hook (after flag load / take_hook / set_hook) and catch_panic (after start / after catch_unwind), followed after a barrier by the epilogue `disable; panic` on every task; all observations are compared with the ModelCatcher (DESIGN §11) and a per-run sentinel hook installed before the catcher's; non-trivial = at least one panic fired and (>= 2 tasks with a pre-emption, or a nested catch); distinct = distinct choice tapes",
    runs_quick: 300_000,
    runs_thorough: 8_000_000,
    directed: FIXED,
    env_groups: false,
    run,
    real: &["wirefilter::panic (catch_panic, set_hook, enable/disable, fallback mode, backtrace TLS)", "std::panic hook chain", "real OS threads with real thread-locals"],
    stub: &["thread scheduler (cooperative baton; pre-emption only at points)", "previously installed hook (per-run sentinel recorder)"],
    assumptions: &[
        "FallbackMode::Abort ends the process by design and is not exercised",
        "while some task is between take_hook and set_hook the process hook is std's default by construction: no sentinel / message-content expectation is attached to panics fired in that window",
        "PANIC_CATCHER_HOOK_SET is reset between runs through the guarded test-only hook",
    ],
    required_probes: &["c19.panic_caught", "c19.panic_escaped", "c19.nested_noncatching_outer", "c19.install", "c19.query", "c19.epilogue", "c19.install_lock_contended", "c19.transparent", "c19.static_payload", "c19.nonstring_payload", "c19.preempted_inside_previous_hook", "c19.catch_during_unwind", "c19.caught_burst", "c19.panic_caught_during_unwind", "c19.recovered_panic", "c19.payload_drop_panicked", "c19.recovered_in_destructor_frame"],
    extra: None,
};

fn v(inv: &str, class: impl Into<String>, detail: impl Into<String>) -> Violation {
    Violation::new(&format!("C19/{inv}"), class, detail)
}

// ------------------------------------------------------------------ global (per-run) model state

#[derive(Clone, Copy, PartialEq, Eq, Debug)]
enum HookState {
    NotInstalled,
    Installed,
    InTransit,
}

struct Global {
    installed: bool,
    in_transit: Vec<usize>,
    sentinel: Vec<(Option<usize>, String)>,
    /// (task, msg, expectation): Some(true) = exactly once, Some(false) = absent, None = no expectation
    expect: Vec<(usize, String, Option<bool>)>,
    both_in_set_hook: bool,
    in_set_hook: Vec<usize>,
}

static ACTIVE: AtomicBool = AtomicBool::new(false);
static GLOBAL: Mutex<Global> = Mutex::new(Global {
    installed: false,
    in_transit: Vec::new(),
    sentinel: Vec::new(),
    expect: Vec::new(),
    both_in_set_hook: false,
    in_set_hook: Vec::new(),
});

fn g<R>(f: impl FnOnce(&mut Global) -> R) -> R {
    let mut guard = match GLOBAL.lock() {
        Ok(g) => g,
        Err(p) => p.into_inner(),
    };
    f(&mut guard)
}

fn hook_state() -> HookState {
    g(|s| {
        if !s.in_transit.is_empty() {
            HookState::InTransit
        } else if s.installed {
            HookState::Installed
        } else {
            HookState::NotInstalled
        }
    })
}

/// Called from the engine's in-repo points (before the scheduling point itself).
pub fn on_engine_site(site: &'static str) {
    if !ACTIVE.load(Ordering::Relaxed) {
        return;
    }
    let Some(t) = kernel::current_task() else { return };
    g(|s| match site {
        "set_hook.after_load" => {
            s.in_set_hook.push(t);
            if s.in_set_hook.len() >= 2 {
                s.both_in_set_hook = true;
            }
        }
        "set_hook.after_take" => s.in_transit.push(t),
        "set_hook.after_set" => {
            s.in_transit.retain(|x| *x != t);
            s.in_set_hook.retain(|x| *x != t);
            s.installed = true;
        }
        _ => {}
    });
}

// ------------------------------------------------------------------ programs

#[derive(Clone, Debug)]
enum Op {
    Enable,
    Disable,
    InstallHook,
    SetFallbackContinue,
    QueryBacktrace,
    Catch(Vec<Op>),
    /// like Catch, but the closure owns a value whose Drop enters (and leaves) catch_panic: if the body panics, that
    /// happens during unwinding, between the panic and the moment the outer catch_panic reads the recorded text
    CatchOwningGuard(Vec<Op>),
    Panic,
    /// n times `catch{panic}` in a row (counters and stored texts must not wear out)
    CaughtBurst(usize),
    /// a panic raised and recovered by a plain `catch_unwind` (never leaves the enclosing frame): the hook runs and
    /// records it, but it is not the enclosing frame's panic
    RecoveredPanic,
    /// like CatchOwningGuard, but the guard's Drop runs `catch_panic(|| panic!(..))`: a nested frame that itself catches
    /// a panic while the outer frame's panic is unwinding
    CatchOwningPanickingGuard(Vec<Op>),
    /// like CatchOwningPanickingGuard, but the nested frame recovers its panic with a plain `catch_unwind` and returns
    CatchOwningRecoveringGuard(Vec<Op>),
    /// panic with a `&'static str` payload (the hook reads `&str` and `String` payloads through different downcasts)
    PanicStatic,
    /// panic with a payload that is neither `&str` nor `String`: there is no message to demand, but the text
    /// returned by catch_panic must not be an earlier panic's
    PanicAny,
    /// panic with a payload whose own destructor panics (with a unique message): the catching frame that ends up
    /// dropping the payload does not return; the second panic goes on from that frame's call site like any other
    /// (only inside at least one catching frame - otherwise this is PanicAny)
    PanicBomb,
}

fn render(ops: &[Op]) -> String {
    ops.iter()
        .map(|o| match o {
            Op::Enable => "enable".to_string(),
            Op::Disable => "disable".to_string(),
            Op::InstallHook => "install".to_string(),
            Op::SetFallbackContinue => "fallback=continue".to_string(),
            Op::QueryBacktrace => "query".to_string(),
            Op::Catch(b) => format!("catch{{{}}}", render(b)),
            Op::CatchOwningGuard(b) => format!("catch+dropguard{{{}}}", render(b)),
            Op::CatchOwningPanickingGuard(b) => format!("catch+dropguard(catch{{panic}}){{{}}}", render(b)),
            Op::CatchOwningRecoveringGuard(b) => format!("catch+dropguard(catch{{recovered-panic}}){{{}}}", render(b)),
            Op::RecoveredPanic => "recovered-panic".to_string(),
            Op::Panic => "panic".to_string(),
            Op::CaughtBurst(n) => format!("{n} x catch{{panic}}"),
            Op::PanicStatic => "panic-static".to_string(),
            Op::PanicAny => "panic-any".to_string(),
            Op::PanicBomb => "panic-with-payload-whose-drop-panics".to_string(),
        })
        .collect::<Vec<_>>()
        .join("; ")
}

fn gen_ops(budget: &mut usize, depth: usize) -> Vec<Op> {
    let mut out = Vec::new();
    while *budget > 0 {
        if !out.is_empty() && chance(1, 4, "prog.stop") {
            break;
        }
        *budget -= 1;
        // inside a frame panics and enable/disable flips are what matters; at top level, frames
        let k = if depth == 0 { choose_w(&[4, 2, 1, 2, 1, 2, 9, 1], "prog.op") } else { choose_w(&[3, 5, 3, 1, 1, 2, if depth < 4 { 6 } else { 0 }, 2], "prog.op") };
        match k {
            0 => out.push(Op::Enable),
            1 => {
                out.push(match choose_w(&[12, 4, 2, 1], "prog.payload") {
                    0 => Op::Panic,
                    1 => Op::PanicStatic,
                    2 => Op::PanicAny,
                    _ => Op::PanicBomb,
                });
                break; // anything after a panic in the same block is dead code
            }
            2 => out.push(Op::Disable),
            3 => out.push(Op::InstallHook),
            4 => out.push(Op::SetFallbackContinue),
            5 => out.push(Op::QueryBacktrace),
            7 => out.push(Op::RecoveredPanic),
            _ => {
                let body = gen_ops(budget, depth + 1);
                out.push(match choose_w(&[8, 1, 1, 1], "prog.dropguard") {
                    0 => Op::Catch(body),
                    1 => Op::CatchOwningGuard(body),
                    2 => Op::CatchOwningPanickingGuard(body),
                    _ => Op::CatchOwningRecoveringGuard(body),
                });
            }
        }
    }
    out
}

/// Dropped when the owning closure returns or unwinds: enters and leaves a (successful) catch_panic.
thread_local! {
    /// set by `Bomb::drop` right before it panics: was the catcher's hook in place (and a catching frame left below),
    /// i.e. will the frame that catches the second panic find its text recorded
    static BOMB_RECORDED: std::cell::Cell<Option<bool>> = const { std::cell::Cell::new(None) };
}

/// A panic payload whose destructor panics.
struct Bomb {
    task: usize,
    msg: String,
    /// catching frames below the frame that will catch the payload (what the nesting level must be when it is dropped)
    below: usize,
    armed: std::cell::Cell<bool>,
}

impl Drop for Bomb {
    fn drop(&mut self) {
        if !self.armed.get() {
            return;
        }
        let hs = hook_state();
        // The statement does not say where a payload is dropped. Today that is after the catching frame has been left
        // (the second panic then meets the level below it); an implementation that drops it inside the frame, catches
        // the second panic or never runs this destructor satisfies the statement too. So: no expectation about which
        // hook sees this message - only about what the thread looks like afterwards.
        let (task, msg) = (self.task, self.msg.clone());
        g(|s| s.expect.push((task, msg.clone(), None)));
        BOMB_RECORDED.with(|c| c.set(Some(hs == HookState::Installed && self.below > 0)));
        kernel::count("c19.payload_drop_panicked");
        panic!("{}", msg);
    }
}

struct CatchInDrop {
    /// (task, message): the nested frame panics with this message - only if catching is enabled at that moment (a
    /// transparent catch_panic would let the panic out of a destructor, which aborts the process when unwinding)
    inner: Option<(usize, String)>,
    /// the nested frame's panic is recovered by a plain `catch_unwind` *inside* the frame, which then returns normally
    recovers: bool,
    /// no frame of this task (this one included) is a catching frame
    none_catching: bool,
}

impl Drop for CatchInDrop {
    fn drop(&mut self) {
        let unwinding = std::thread::panicking();
        if unwinding {
            kernel::count("c19.catch_during_unwind");
        }
        match &self.inner {
            // the nested frame raises its panic only where that is safe and within the statement: when the frame
            // catches (catching enabled right now), or - for the kind that recovers its panic itself - when it is
            // transparent and no enclosing frame catches either (then nothing but the previous hook may see the panic)
            Some((task, msg)) if wirefilter::verif::panic_catcher_enabled() || (self.recovers && self.none_catching) => {
                let catching_now = wirefilter::verif::panic_catcher_enabled();
                if !catching_now {
                    kernel::count("c19.recovered_in_transparent_destructor_frame");
                }
                let (task, msg) = (*task, msg.clone());
                if unwinding {
                    kernel::count("c19.panic_caught_during_unwind");
                }
                let m2 = msg.clone();
                let mut hs_at_panic = HookState::InTransit;
                let hs_ref = &mut hs_at_panic;
                let recovers = self.recovers;
                let r = catch_panic(AssertUnwindSafe(move || -> u8 {
                    // (entering the frame is a scheduling point: who holds the hook is read here, right at the panic)
                    let hs = hook_state();
                    *hs_ref = hs;
                    let expect = match hs {
                        HookState::InTransit => None,
                        HookState::Installed if catching_now => Some(false),
                        _ => Some(true),
                    };
                    g(|s| s.expect.push((task, m2.clone(), expect)));
                    if recovers {
                        let m3 = m2.clone();
                        let _ = catch_unwind(AssertUnwindSafe(move || -> u8 { panic!("{}", m3) }));
                        return 7;
                    }
                    panic!("{}", m2)
                }));
                let hs = hs_at_panic;
                if recovers {
                    kernel::count("c19.recovered_in_destructor_frame");
                    if r != Ok(7) {
                        kernel::fail(v("err-without-panic", "frame-in-destructor", format!("task {task}: the nested frame recovered its panic itself and returned 7, catch_panic gave {:?}", r.as_ref().map_err(|t| t.lines().next().unwrap_or("").to_string()))));
                    }
                    return;
                }
                match r {
                    Ok(_) => kernel::fail(v("panic-swallowed", "frame-in-destructor", format!("task {task}: the nested frame's body panicked with {msg:?} but catch_panic returned Ok"))),
                    Err(text) => {
                        if hs == HookState::Installed && !text.contains(msg.as_str()) {
                            kernel::fail(v(
                                "message-missing",
                                "frame-in-destructor",
                                format!("task {task}: a frame entered from a destructor caught {msg:?} but its error text is {:?}", text.lines().next()),
                            ));
                        }
                    }
                }
            }
            _ => {
                let _ = catch_panic(|| 7u8);
            }
        }
    }
}

#[derive(Clone, Debug, PartialEq)]
enum Last {
    None,
    Msg(String),
    Unknown,
}

struct Pending {
    msg: String,
    frame: Option<usize>,
    content_expected: bool,
    /// the panic is the one a `Bomb` payload raises when dropped: whether its text is recorded is known only then
    bomb: bool,
    /// for a bomb: the frame that catches the payload itself (if it returns `Err` instead of letting the destructor's
    /// panic through, that is just as good)
    bomb_frame: Option<usize>,
    /// messages of this task's earlier panics: a returned text that contains one of them is stale
    earlier: Vec<String>,
}

struct TaskModel {
    task: usize,
    run: u64,
    enabled: bool,
    frames: Vec<bool>,
    last: Last,
    pending: Option<Pending>,
    counter: u32,
    msgs: Vec<String>,
}

fn depth_catching(m: &TaskModel) -> usize {
    m.frames.iter().filter(|c| **c).count()
}

fn check_level(m: &TaskModel, wher: &str) {
    let lvl = wirefilter::verif::panic_catcher_level();
    let want = depth_catching(m) as u64;
    if lvl != want {
        kernel::fail(v("level-unbalanced", wher.to_string(), format!("task {}: nesting level is {lvl}, model says {want} ({wher})", m.task)));
    }
    let en = wirefilter::verif::panic_catcher_enabled();
    if en != m.enabled {
        kernel::fail(v("enabled-flag-differs", wher.to_string(), format!("task {}: enabled flag is {en}, model says {}", m.task, m.enabled)));
    }
}

fn exec_ops(ops: &[Op], m: &mut TaskModel) {
    for op in ops {
        kernel::point("c19.op");
        if kernel::failed() {
            return;
        }
        match op {
            Op::Enable => {
                crate::tr!("t{}: enable", m.task);
                panic_catcher_enable();
                m.enabled = true;
            }
            Op::Disable => {
                crate::tr!("t{}: disable", m.task);
                panic_catcher_disable();
                m.enabled = false;
            }
            Op::InstallHook => {
                crate::tr!("t{}: install hook", m.task);
                kernel::count("c19.install");
                panic_catcher_set_hook();
                // once set_hook has returned to *this* caller the hook must be in place (the caller is entitled to
                // rely on the property's precondition from here on), whoever installed it
                let hs = hook_state();
                if hs != HookState::Installed {
                    kernel::fail(v(
                        "set-hook-returned-early",
                        format!("{hs:?}"),
                        format!("task {}: panic_catcher_set_hook() returned while the catcher's hook is {hs:?} (another task is still inside the installation)", m.task),
                    ));
                }
            }
            Op::SetFallbackContinue => {
                let prev = panic_catcher_set_fallback_mode(PanicCatcherFallbackMode::Continue);
                if prev != PanicCatcherFallbackMode::Continue {
                    kernel::fail(v("fallback-mode", "", format!("task {}: previous fallback mode {prev:?}, nothing ever set Abort", m.task)));
                }
            }
            Op::QueryBacktrace => {
                let bt = panic_catcher_get_backtrace();
                kernel::count("c19.query");
                crate::tr!("t{}: query backtrace -> {:?} (model {:?})", m.task, bt.as_ref().map(|s| s.lines().next().unwrap_or("").to_string()), m.last);
                // The statement does not say what get_backtrace returns, only that nothing leaks between threads: so
                // None is always acceptable, and a text must be about one of THIS thread's own panics.
                match (&m.last, bt) {
                    (_, None) | (Last::Unknown, _) => {}
                    (Last::None, Some(t)) => kernel::fail(v(
                        "backtrace-leaked",
                        "",
                        format!("task {} never recorded a panic but get_backtrace says {:?}", m.task, t.lines().next()),
                    )),
                    (Last::Msg(_), Some(t)) => {
                        if !m.msgs.iter().any(|own| t.contains(own.as_str())) {
                            kernel::fail(v(
                                "backtrace-leaked",
                                "foreign-text",
                                format!("task {}: get_backtrace returned a text that is about none of this thread's panics: {:?}", m.task, t.lines().next()),
                            ));
                        }
                    }
                }
            }
            Op::CaughtBurst(n) => {
                let body = vec![Op::Panic];
                for _ in 0..*n {
                    exec_ops(&[Op::Catch(body.clone())], m);
                    if kernel::failed() {
                        return;
                    }
                }
                kernel::count("c19.caught_burst");
            }
            Op::Catch(body) | Op::CatchOwningGuard(body) | Op::CatchOwningPanickingGuard(body) | Op::CatchOwningRecoveringGuard(body) => {
                let with_guard = !matches!(op, Op::Catch(_));
                let recovers = matches!(op, Op::CatchOwningRecoveringGuard(_));
                let guard_msg = matches!(op, Op::CatchOwningPanickingGuard(_) | Op::CatchOwningRecoveringGuard(_)).then(|| {
                    m.counter += 1;
                    let msg = format!("g{}-{}-{};", m.run, m.task, m.counter);
                    m.msgs.push(msg.clone());
                    (m.task, msg)
                });
                let panicking_guard = guard_msg.is_some();
                // (this frame is pushed just below: it catches iff catching is enabled now)
                let none_catching = depth_catching(m) == 0 && !m.enabled;
                let catching = m.enabled;
                let idx = m.frames.len();
                m.frames.push(catching);
                if idx > 0 && !m.frames[..idx].iter().all(|c| *c) && catching {
                    kernel::count("c19.nested_noncatching_outer");
                }
                crate::tr!("t{}: enter catch_panic #{idx} (catching={catching})", m.task);
                let r = {
                    let mm = &mut *m;
                    catch_panic(AssertUnwindSafe(move || {
                        let _guard = with_guard.then_some(CatchInDrop { inner: guard_msg, recovers, none_catching });
                        exec_ops(body, mm);
                        42u32
                    }))
                };
                // reaching this line means catch_panic *returned*
                m.frames.truncate(idx);
                if panicking_guard {
                    // whether the guard's frame panicked depended on the enabled flag at that moment
                    m.last = Last::Unknown;
                }
                match r {
                    Ok(val) => {
                        crate::tr!("t{}: catch_panic #{idx} returned Ok", m.task);
                        if val != 42 {
                            kernel::fail(v("wrong-value", "", "catch_panic changed the closure's value"));
                        }
                        if let Some(p) = m.pending.take() {
                            kernel::fail(v("panic-swallowed", "", format!("task {}: body panicked with {:?} but catch_panic returned Ok", m.task, p.msg)));
                        }
                    }
                    Err(text) => {
                        crate::tr!("t{}: catch_panic #{idx} returned Err({:?})", m.task, text.lines().next().unwrap_or(""));
                        match m.pending.take() {
                            None => kernel::fail(v("err-without-panic", "", format!("task {}: catch_panic returned Err({:?}) but nothing panicked", m.task, text.lines().next()))),
                            Some(mut p) => {
                                if p.bomb {
                                    p.content_expected = BOMB_RECORDED.with(|c| c.take()).unwrap_or(false);
                                    if p.bomb_frame == Some(idx) {
                                        // the frame that caught the payload returned Err: the destructor's panic was
                                        // not let through (or not raised); nothing to demand about the text
                                        kernel::count("c19.payload_drop_contained");
                                        p.frame = Some(idx);
                                        p.content_expected = false;
                                    }
                                }
                                kernel::count("c19.panic_caught");
                                if p.frame != Some(idx) {
                                    kernel::fail(v(
                                        "caught-at-wrong-frame",
                                        if catching { "catching" } else { "transparent-frame-caught" },
                                        format!("task {}: panic {:?} caught by frame #{idx} (catching={catching}); model says frame {:?}", m.task, p.msg, p.frame),
                                    ));
                                } else if p.content_expected && p.earlier.iter().any(|e| *e != p.msg && text.contains(e.as_str())) {
                                    kernel::fail(v(
                                        "stale-message",
                                        "",
                                        format!("task {}: caught panic {:?} but the error text is an earlier panic's: {:?}", m.task, p.msg, text.lines().next()),
                                    ));
                                } else if p.content_expected && !p.msg.is_empty() && !text.contains(p.msg.as_str()) {
                                    kernel::fail(v(
                                        "message-missing",
                                        "",
                                        format!("task {}: caught panic {:?} but the error text is {:?}", m.task, p.msg, text.lines().next()),
                                    ));
                                }
                            }
                        }
                    }
                }
                check_level(m, "after-catch");
            }
            Op::RecoveredPanic => {
                m.counter += 1;
                let msg = format!("r{}-{}-{};", m.run, m.task, m.counter);
                let dc = depth_catching(m);
                let hs = hook_state();
                let expect = match hs {
                    HookState::InTransit => {
                        if dc > 0 {
                            m.last = Last::Unknown;
                        }
                        None
                    }
                    HookState::Installed if dc > 0 => {
                        m.last = Last::Msg(msg.clone());
                        Some(false)
                    }
                    _ => Some(true),
                };
                m.msgs.push(msg.clone());
                let task = m.task;
                g(|s| s.expect.push((task, msg.clone(), expect)));
                crate::tr!("t{}: panic {msg:?} recovered by a plain catch_unwind (catching frames={dc}, hook={hs:?})", m.task);
                kernel::count("c19.recovered_panic");
                let m2 = msg.clone();
                if catch_unwind(AssertUnwindSafe(move || -> u8 { panic!("{}", m2) })).is_ok() {
                    kernel::fail(v("panic-swallowed", "plain-catch_unwind", format!("task {}: {msg:?} did not unwind", m.task)));
                }
            }
            Op::PanicBomb if depth_catching(m) > 0 => {
                m.counter += 1;
                let msg = format!("b{}-{}-{};", m.run, m.task, m.counter);
                let fi = m.frames.iter().rposition(|c| *c).unwrap();
                let below = m.frames[..fi].iter().filter(|c| **c).count();
                m.pending = Some(Pending {
                    msg: msg.clone(),
                    frame: m.frames[..fi].iter().rposition(|c| *c),
                    content_expected: false,
                    bomb: true,
                    bomb_frame: Some(fi),
                    earlier: m.msgs.clone(),
                });
                m.msgs.push(msg.clone());
                m.last = Last::Unknown;
                kernel::count("c19.payload_drop_panics");
                crate::tr!("t{}: panic with a payload whose drop panics with {msg:?} (caught by frame #{fi}, {below} catching frames below it)", m.task);
                std::panic::panic_any(Bomb { task: m.task, msg, below, armed: std::cell::Cell::new(true) });
            }
            Op::Panic | Op::PanicStatic | Op::PanicAny | Op::PanicBomb => {
                m.counter += 1;
                let is_static = matches!(op, Op::PanicStatic);
                let is_any = matches!(op, Op::PanicAny | Op::PanicBomb);
                // static payloads cannot carry the run number: unique per (task, counter) within the run is enough,
                // because the sentinel log and the model are per run
                const STATIC_MSGS: [[&str; 4]; 3] = [
                    ["ps-t0-a", "ps-t0-b", "ps-t0-c", "ps-t0-d"],
                    ["ps-t1-a", "ps-t1-b", "ps-t1-c", "ps-t1-d"],
                    ["ps-t2-a", "ps-t2-b", "ps-t2-c", "ps-t2-d"],
                ];
                let static_msg: &'static str = STATIC_MSGS[m.task % 3][(m.counter as usize - 1) % 4];
                // some formatted messages carry a quote and a newline (the hook formats the payload into its own text)
                let msg = if is_any {
                    String::new()
                } else if is_static && m.counter <= 4 {
                    static_msg.to_string()
                } else if m.counter % 4 == 3 {
                    // (every message ends in ';' so that none is a prefix of another: p1-0-1; vs p1-0-10;)
                    format!("p'{}-{}\nline2-{};", m.run, m.task, m.counter)
                } else {
                    // message shapes a recorder may mishandle: long (buffers, truncation), multi-byte (cuts), format
                    // directives, control bytes
                    let pad = match kernel::choose_w(&[12, 1, 1, 1, 1], "panic.shape") {
                        0 => String::new(),
                        1 => "x".repeat([250usize, 1020, 4090, 8190][choose(4, "panic.long")] + choose(8, "panic.long_off")),
                        2 => "\u{e9}\u{20ac}\u{1f600}".repeat(range(1, 120, "panic.wide")),
                        3 => "{}{0}%s%n\\u{41}".to_string(),
                        _ => "\u{1b}[0m\r\t\u{0}\u{7f}".to_string(),
                    };
                    format!("p{}-{}-{}{pad};", m.run, m.task, m.counter)
                };
                let is_static = is_static && m.counter <= 4;
                let dc = depth_catching(m);
                let hs = hook_state();
                let frame = m.frames.iter().rposition(|c| *c);
                if frame.is_some() && m.frames.last() == Some(&false) {
                    kernel::count("c19.transparent");
                }
                m.pending = Some(Pending {
                    msg: msg.clone(),
                    frame,
                    content_expected: hs == HookState::Installed,
                    bomb: false,
                    bomb_frame: None,
                    earlier: m.msgs.clone(),
                });
                if !msg.is_empty() {
                    m.msgs.push(msg.clone());
                }
                let expect = match hs {
                    HookState::InTransit => {
                        if dc > 0 {
                            m.last = Last::Unknown;
                        }
                        None
                    }
                    HookState::Installed if dc > 0 => {
                        m.last = Last::Msg(msg.clone());
                        Some(false)
                    }
                    _ => Some(true),
                };
                if frame.is_none() {
                    kernel::count("c19.panic_escaped");
                }
                let task = m.task;
                if !is_any {
                    g(|s| s.expect.push((task, msg.clone(), expect)));
                }
                crate::tr!("t{}: panic {msg:?}{} (catching frames={dc}, hook={hs:?}, sentinel expectation={expect:?})", m.task, if is_static { " [&'static str payload]" } else { "" });
                if is_static {
                    kernel::count("c19.static_payload");
                    std::panic::panic_any(static_msg);
                }
                if is_any {
                    kernel::count("c19.nonstring_payload");
                    if dc > 0 && hs == HookState::Installed {
                        m.last = Last::Unknown;
                    }
                    std::panic::panic_any(42u32);
                }
                panic!("{}", msg);
            }
        }
        check_level(m, "after-op");
    }
}

fn task_body(task: usize, run: u64, prog: Vec<Op>) {
    let mut m = TaskModel {
        task,
        run,
        enabled: false,
        frames: Vec::new(),
        last: Last::None,
        pending: None,
        counter: 0,
        msgs: Vec::new(),
    };
    let r = {
        let mm = &mut m;
        catch_unwind(AssertUnwindSafe(move || exec_ops(&prog, mm)))
    };
    m.frames.clear();
    match r {
        Ok(()) => {
            if let Some(p) = m.pending.take() {
                kernel::fail(v("panic-swallowed", "root", format!("task {task}: {:?} never surfaced", p.msg)));
            }
        }
        Err(payload) => {
            if let Some(b) = payload.downcast_ref::<Bomb>() {
                // (only if a catching frame let it through: reported below as escaped; do not let it go off here)
                b.armed.set(false);
            }
            let got = kernel::panic_message(&*payload);
            match m.pending.take() {
                Some(p) if p.frame.is_none() && (p.msg == got || (p.msg.is_empty() && got == "<non-string panic payload>")) => {}
                Some(p) => kernel::fail(v(
                    "escaped-catching-frame",
                    "",
                    format!("task {task}: panic {:?} unwound to the task root; model says it is caught by frame {:?} (payload {got:?})", p.msg, p.frame),
                )),
                None => kernel::fail(v("unexpected-root-panic", crate::seams::panic_class(&got), format!("task {task}: {got}"))),
            }
        }
    }
    check_level(&m, "program-end");
    // ---- epilogue, after every task has finished its program
    kernel::barrier();
    if kernel::failed() {
        return;
    }
    panic_catcher_disable();
    m.enabled = false;
    let msg = format!("p{run}-{task}-epilogue");
    g(|s| s.expect.push((task, msg.clone(), Some(true))));
    kernel::count("c19.epilogue");
    crate::tr!("t{task}: epilogue: disable; panic {msg:?} outside catch_panic");
    let mclone = msg.clone();
    let r = catch_unwind(AssertUnwindSafe(move || {
        let _: () = catch_panic(AssertUnwindSafe(|| panic!("{}", mclone))).expect("disabled catch_panic must be transparent");
    }));
    match r {
        Err(p) if kernel::panic_message(&*p) == msg => {}
        Err(p) => kernel::fail(v("epilogue", "payload", format!("task {task}: epilogue panic surfaced as {:?}", kernel::panic_message(&*p)))),
        Ok(()) => kernel::fail(v("epilogue", "swallowed", format!("task {task}: a panic with catching disabled did not unwind"))),
    }
    check_level(&m, "epilogue");
}

fn run(ctx: &RunCtx) -> Result<(), Violation> {
    crate::seams::reset(ctx.run);
    // ---- process reset: sentinel hook first, catcher "not installed"
    let _ = std::panic::take_hook();
    wirefilter::verif::panic_catcher_reset_hook_flag();
    g(|s| {
        s.installed = false;
        s.in_transit.clear();
        s.sentinel.clear();
        s.expect.clear();
        s.both_in_set_hook = false;
        s.in_set_hook.clear();
    });
    std::panic::set_hook(Box::new(|info| {
        let msg = if let Some(s) = info.payload().downcast_ref::<&str>() {
            s.to_string()
        } else if let Some(s) = info.payload().downcast_ref::<String>() {
            s.clone()
        } else {
            "<unknown>".to_string()
        };
        let t = kernel::current_task();
        let may_yield = g(|s| {
            s.sentinel.push((t, msg));
            // Pre-empting a task *inside the previously installed hook* is only safe while nobody can be about to
            // call take_hook/set_hook (they need the write side of std's hook lock, which this thread holds for
            // reading): i.e. once the catcher's hook is installed and no installation is in flight.
            s.installed && s.in_transit.is_empty() && s.in_set_hook.is_empty()
        });
        if may_yield && t.is_some() {
            kernel::count("c19.preempted_inside_previous_hook");
            kernel::point("sentinel.hook");
        }
    }));
    ACTIVE.store(true, Ordering::SeqCst);

    let scenario = choose(1 + FIXED as usize, "scenario");
    let max_len = if ctx.tier == Tier::Thorough { 10 } else { 7 };
    let programs: Vec<Vec<Op>> = match scenario {
        0 => {
            let nt = 1 + choose_w(&[3, 4, 2], "ntasks");
            (0..nt)
                .map(|_| {
                    let mut budget = range(1, max_len, "prog.len");
                    // half of the programs start from the property's precondition (hook installed, catching on)
                    let mut ops = Vec::new();
                    if chance(1, 2, "prog.prelude") && budget > 2 {
                        ops.push(Op::InstallHook);
                        ops.push(Op::Enable);
                        budget -= 2;
                    }
                    ops.extend(gen_ops(&mut budget, 0));
                    // (rarely) a long burst of caught panics inside an otherwise ordinary program
                    if chance(1, 150, "prog.burst") {
                        let at = choose(ops.len() + 1, "prog.burst_at");
                        ops.insert(at, Op::CaughtBurst([33usize, 70, 260][choose(3, "prog.burst_n")]));
                    }
                    ops
                })
                .collect()
        }
        // D4: two tasks install the hook concurrently (several run indices = several schedules)
        1..=8 => vec![vec![Op::InstallHook], vec![Op::InstallHook, Op::Enable, Op::Catch(vec![Op::Panic])]],
        9 => vec![vec![Op::InstallHook, Op::Enable, Op::Catch(vec![Op::Catch(vec![Op::Panic]), Op::QueryBacktrace, Op::Panic]), Op::QueryBacktrace]],
        _ => vec![vec![Op::InstallHook, Op::Enable, Op::Catch(vec![Op::Disable, Op::Catch(vec![Op::Panic])]), Op::Panic]],
    };
    let desc: Vec<String> = programs.iter().map(|p| render(p)).collect();
    for (i, d) in desc.iter().enumerate() {
        crate::tr!("program t{i}: {d}");
    }
    let run_id = ctx.run;
    let fns: Vec<kernel::TaskFn> = programs
        .iter()
        .cloned()
        .enumerate()
        .map(|(i, p)| Box::new(move || task_body(i, run_id, p)) as kernel::TaskFn)
        .collect();
    let ntasks = fns.len();
    let results = kernel::run_tasks(fns);

    // ---- restore the process for the next run
    ACTIVE.store(false, Ordering::SeqCst);
    let _ = std::panic::take_hook();
    wirefilter::verif::panic_catcher_reset_hook_flag();
    crate::seams::install_quiet_hook();

    for (i, r) in results.into_iter().enumerate() {
        if let Err(p) = r {
            return Err(v("task-died", crate::seams::panic_class(&p), format!("task {i} died outside its root catch_unwind: {p}")));
        }
    }
    // ---- sentinel log against expectations
    let (sentinel, expect, both) = g(|s| (s.sentinel.clone(), s.expect.clone(), s.both_in_set_hook));
    if both {
        kernel::count("c19.preempt_in_set_hook");
    }
    let mut fired = 0;
    for (task, msg, e) in &expect {
        fired += 1;
        let n = sentinel.iter().filter(|(t, m)| *t == Some(*task) && m == msg).count();
        let elsewhere = sentinel.iter().filter(|(t, m)| *t != Some(*task) && m == msg).count();
        if elsewhere > 0 {
            kernel::fail(v("sentinel-wrong-thread", "", format!("panic {msg:?} of task {task} was reported on another thread")));
        }
        match e {
            Some(true) if n != 1 => kernel::fail(v(
                "sentinel-missed",
                if msg.ends_with("epilogue") { "epilogue" } else { "outside-catch" },
                format!("panic {msg:?} (task {task}) outside any catching frame must reach the previously installed hook exactly once; seen {n} times"),
            )),
            Some(false) if n != 0 => kernel::fail(v("sentinel-saw-caught-panic", "", format!("caught panic {msg:?} (task {task}) was forwarded to the previous hook {n} times"))),
            _ => {}
        }
    }
    for (t, m) in &sentinel {
        if m != "<unknown>" && !expect.iter().any(|(_, msg, _)| msg == m) {
            kernel::fail(v("sentinel-unexpected", crate::seams::panic_class(m), format!("sentinel saw an unexpected panic {m:?} on task {t:?}")));
        }
    }
    let nested = desc.iter().any(|d| d.contains("catch{") && d[d.find("catch{").unwrap() + 6..].contains("catch{"));
    if fired > ntasks && ((ntasks >= 2 && kernel::counter("c19.install") + kernel::counter("c19.panic_caught") > 0) || nested) {
        kernel::set_nontrivial();
    }
    if ctx.want_sample {
        kernel::set_sample(|| serde_json::json!({"kind": "catcher-programs", "programs": desc, "sentinel_log": sentinel.iter().map(|(t, m)| format!("t{t:?}:{m}")).collect::<Vec<_>>() }));
    }
    Ok(())
}
