/// Called from the engine's in-repo points before the scheduling point itself.
pub fn on_engine_site(_site: &'static str) {}
