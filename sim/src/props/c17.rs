//! C17 — `in $list` delegates exactly to the context's list matcher.

use crate::driver::{PropDef, RunCtx};
use crate::kernel::{self, Violation, chance, choose, choose_w, range};
use crate::model::{MType, MValue, ModelCtx, SetVal, gen_value};
use crate::props::c14::{Consumer, deliver_ctx, gen_consumer, gen_read_plan};
use crate::seams::{self, CallRec, Entry, IoStats, ReadPlan, SetMatcher};
use crate::wgen::{self, ListKind, SchemeSpec};
use std::panic::{AssertUnwindSafe, catch_unwind};
use std::sync::Arc;
use wirefilter::{ExecutionContext, Filter, Scheme};

const FIXED: u32 = 4;

pub static DEF: PropDef = PropDef {
    id: "C17",
    engine: "wfsim lists",
    level: "exploration",
    rule: "one run = one scheme with a tape-chosen registration order of set / always / never lists (plus unqueryable decoy lists that shift indices), 2-4 `lhs in $name` filters (lhs = field, index path, [*] path under any/all, harness function call; valid and invalid names; types with and without a list) and a history of <= 8 (quick) / <= 20 (thorough) operations over {mutate matcher, clear, clone_with, borrow_with + mutate + drop, set field, serialise -> faulty transport -> deserialise, execute}, optionally followed by a two-task phase where the original and a clone are queried under the scheduler; every execute is compared with the reference (result and the exact (list type, name, value) call sequence); non-trivial = at least one matcher query observed and at least one state-changing op; distinct = distinct choice tapes",
    runs_quick: 600_000,
    runs_thorough: 20_000_000,
    directed: FIXED,
    env_groups: false,
    run,
    real: &["filter parser / compiler / executor (InList node)", "ExecutionContext list matcher storage, clear, clone_with, borrow_with, $lists serde", "AlwaysList / NeverList", "serde_json"],
    stub: &["SetList matcher (harness ListDefinition / ListMatcher with real state, call recorder and scheduling points)", "byte source (FaultyReader)"],
    assumptions: &["reference evaluator of the left-hand side (index / key / [*] flattening; harness functions are identity, lower-case, length)", "serde_json as transport"],
    required_probes: &["op.execute", "op.mutate", "op.clear", "op.clone", "op.borrow", "op.roundtrip", "probe.always_true", "probe.never", "probe.each", "probe.parse_rejected", "probe.two_tasks", "fault.eintr", "op.matcher_panics"],
    extra: None,
};

fn v(inv: &str, class: impl Into<String>, detail: impl Into<String>) -> Violation {
    Violation::new(&format!("C17/{inv}"), class, detail)
}

#[derive(Clone, Debug)]
enum Step {
    Idx(usize),
    Key(String),
    Each,
}

#[derive(Clone, Debug)]
struct Lhs {
    field: usize,
    steps: Vec<Step>,
    func: Option<&'static str>,
    text: String,
    /// type of the value(s) handed to the matcher
    prim: MType,
    each: bool,
}

const KEYS: &[&str] = &["k", "key", "k1", "a", "host", "kéy"];

fn gen_lhs(spec: &SchemeSpec) -> Option<Lhs> {
    if spec.fields.is_empty() {
        return None;
    }
    let field = choose(spec.fields.len(), "lhs.field");
    let (name, ty, _) = &spec.fields[field];
    let mut text = name.clone();
    let mut steps = Vec::new();
    let mut t = ty.clone();
    let mut each = false;
    loop {
        match t.clone() {
            MType::Array(inner) => {
                if chance(1, 2, "lhs.each") {
                    steps.push(Step::Each);
                    text.push_str("[*]");
                    each = true;
                } else {
                    let i = choose(3, "lhs.idx");
                    steps.push(Step::Idx(i));
                    text.push_str(&format!("[{i}]"));
                }
                t = *inner;
            }
            MType::Map(inner) => {
                if chance(1, 3, "lhs.each") {
                    steps.push(Step::Each);
                    text.push_str("[*]");
                    each = true;
                } else {
                    let k = KEYS[choose(KEYS.len(), "lhs.key")];
                    steps.push(Step::Key(k.to_string()));
                    text.push_str(&format!("[\"{k}\"]"));
                }
                t = *inner;
            }
            _ => break,
        }
    }
    let mut func = None;
    let mut prim = t.clone();
    if chance(1, 3, "lhs.fn") {
        let cands: Vec<&'static str> = spec
            .functions
            .iter()
            .copied()
            .filter(|f| matches!((*f, &t), ("echo" | "lower" | "boom" | "len", MType::Bytes) | ("idint", MType::Int) | ("idip", MType::Ip)))
            .collect();
        if !cands.is_empty() {
            let f = cands[choose(cands.len(), "lhs.fname")];
            func = Some(f);
            // a function applied to a [*] path yields an array: iterate it again for the comparison
            text = if each { format!("{f}({text})[*]") } else { format!("{f}({text})") };
            if f == "len" {
                prim = MType::Int;
            }
        }
    }
    Some(Lhs {
        field,
        steps,
        func,
        text,
        prim,
        each,
    })
}

fn apply_fn(f: Option<&'static str>, val: MValue) -> MValue {
    match (f, val) {
        (Some("lower"), MValue::Bytes(b)) => MValue::Bytes(b.to_ascii_lowercase()),
        (Some("len"), MValue::Bytes(b)) => MValue::Int(b.len() as i64),
        (_, val) => val,
    }
}

/// Reference evaluation of the left-hand side: the list of values the matcher must be asked about.
fn eval_lhs(lhs: &Lhs, m: &ModelCtx) -> Vec<MValue> {
    let Some(root) = &m.values[lhs.field] else { return Vec::new() };
    let mut cur: Vec<MValue> = vec![root.clone()];
    for s in &lhs.steps {
        let mut next = Vec::new();
        for val in cur {
            match (s, val) {
                (Step::Idx(i), MValue::Array(_, a)) => {
                    if let Some(e) = a.get(*i) {
                        next.push(e.clone());
                    }
                }
                (Step::Key(k), MValue::Map(_, mm)) => {
                    if let Some(e) = mm.get(k.as_bytes()) {
                        next.push(e.clone());
                    }
                }
                (Step::Each, MValue::Array(_, a)) => next.extend(a.iter().cloned()),
                (Step::Each, MValue::Map(_, mm)) => next.extend(mm.values().cloned()),
                _ => {}
            }
        }
        cur = next;
    }
    cur.into_iter().map(|x| apply_fn(lhs.func, x)).collect()
}

#[derive(Clone, Debug)]
struct Query {
    lhs: Lhs,
    name: String,
    all: bool,
    text: String,
}

const VALID_NAMES: &[&str] = &["l", "blocked", "a.b", "x_1", "0", "bots.bad", "a..b", "_"];
const INVALID_NAMES: &[&str] = &["", ".a", "a.", "Abc", "-x", "é", "abX", "a b", "ab-c", "$x"];

fn expected_query(spec: &SchemeSpec, q: &Query, m: &ModelCtx, task: Option<usize>) -> (bool, Vec<CallRec>) {
    let vals = eval_lhs(&q.lhs, m);
    let idx = spec.list_index(&q.lhs.prim).expect("list");
    let mut calls = Vec::new();
    let mut results = Vec::new();
    for val in &vals {
        let r = match spec.lists[idx].1 {
            ListKind::Always => true,
            ListKind::Never => false,
            ListKind::Set => {
                let sv = SetVal::from_m(val);
                calls.push(CallRec {
                    list_ty: q.lhs.prim.clone(),
                    name: q.name.clone(),
                    value: sv.clone(),
                    task,
                });
                m.lists[idx].as_ref().unwrap().get(&q.name).is_some_and(|s| s.contains(&sv))
            }
        };
        results.push(r);
    }
    let result = if q.lhs.each {
        if q.all { results.iter().all(|x| *x) } else { results.iter().any(|x| *x) }
    } else {
        results.first().copied().unwrap_or(false)
    };
    (result, calls)
}

fn can_execute(spec: &SchemeSpec, q: &Query, m: &ModelCtx) -> bool {
    // a mandatory field without a value panics by design (execution_context.rs): not part of the property
    spec.fields[q.lhs.field].2 || m.values[q.lhs.field].is_some()
}

fn check_execute(spec: &SchemeSpec, q: &Query, f: &Filter, ctx: &ExecutionContext<'_>, m: &ModelCtx, task: Option<usize>) -> Result<(), Violation> {
    let (want, want_calls) = expected_query(spec, q, m, task);
    seams::harness(|h| h.calls.retain(|c| c.task != task));
    let got = match catch_unwind(AssertUnwindSafe(|| f.execute(ctx))) {
        Ok(Ok(b)) => b,
        Ok(Err(e)) => return Err(v("scheme-mismatch", "", format!("{}: {e}", q.text))),
        Err(p) => return Err(v("execute-panicked", seams::panic_class(&kernel::panic_message(&*p)), format!("{} panicked: {}", q.text, kernel::panic_message(&*p)))),
    };
    let got_calls: Vec<CallRec> = seams::harness(|h| {
        let (mine, rest): (Vec<CallRec>, Vec<CallRec>) = std::mem::take(&mut h.calls).into_iter().partition(|c| c.task == task);
        h.calls = rest;
        mine
    });
    kernel::count("op.execute");
    if !got_calls.is_empty() {
        kernel::count_n("matcher.queries", got_calls.len() as u64);
    }
    let idx = spec.list_index(&q.lhs.prim).unwrap();
    let kind = spec.lists[idx].1;
    let vals = eval_lhs(&q.lhs, m);
    if kind == ListKind::Always && !vals.is_empty() && want {
        kernel::count("probe.always_true");
    }
    if kind == ListKind::Never && !vals.is_empty() {
        kernel::count("probe.never");
    }
    if q.lhs.each && vals.len() > 1 {
        kernel::count("probe.each");
    }
    let class = format!(
        "{:?}/{}{}{}",
        kind,
        q.lhs.prim.short(),
        if q.lhs.each { if q.all { "/all" } else { "/any" } } else { "" },
        if q.lhs.func.is_some() { "/fn" } else { "" }
    );
    crate::tr!("  execute `{}` -> {got} (reference {want}); matcher calls {:?}", q.text, got_calls.iter().map(|c| format!("{}:{}", c.name, c.value.encode())).collect::<Vec<_>>());
    if got != want {
        return Err(v(
            "result-differs",
            class,
            format!("`{}`: engine {got}, reference {want}; lhs values {:?}; list state {:?}", q.text, vals.iter().map(|x| x.render()).collect::<Vec<_>>(), m.lists[idx]),
        ));
    }
    // The statement fixes *what* the matcher is asked (list, name, value, per element) and that the answer is
    // the matcher's; it does not forbid short-circuiting any()/all(). So: every observed query must be one of the
    // predicted ones, in order (a subsequence), and the observed queries must suffice to determine the result.
    let mut wi = 0usize;
    let mut answers: Vec<bool> = Vec::new();
    let set = m.lists[idx].as_ref();
    for g in &got_calls {
        while wi < want_calls.len() && want_calls[wi] != *g {
            wi += 1;
        }
        if wi == want_calls.len() {
            return Err(v(
                "matcher-calls-differ",
                class,
                format!("`{}`: matcher was asked {:?}, which is not (in order) among the predicted queries {:?}", q.text, got_calls, want_calls),
            ));
        }
        wi += 1;
        answers.push(set.and_then(|s| s.get(&g.name)).is_some_and(|s| s.contains(&g.value)));
    }
    let all_asked = got_calls.len() == want_calls.len();
    let sufficient = if kind != ListKind::Set {
        true
    } else if !q.lhs.each {
        all_asked
    } else if q.all {
        if want { all_asked } else { answers.iter().any(|a| !*a) }
    } else if want {
        answers.iter().any(|a| *a)
    } else {
        all_asked
    };
    if !sufficient {
        return Err(v(
            "matcher-calls-differ",
            class,
            format!("`{}` = {got}: the matcher was only asked {:?} of the predicted {:?}, which cannot determine that answer", q.text, got_calls, want_calls),
        ));
    }
    Ok(())
}

fn set_matcher<'a>(spec: &SchemeSpec, scheme: &Scheme, ctx: &'a mut ExecutionContext<'_>, idx: usize) -> &'a mut SetMatcher {
    let list = scheme.get_list(&spec.lists[idx].0.to_type()).expect("list");
    ctx.get_list_matcher_mut(list).as_any_mut().downcast_mut::<SetMatcher>().expect("SetMatcher")
}

fn gen_setval(ty: &MType, pool: &[MValue]) -> SetVal {
    let from_pool: Vec<&MValue> = pool.iter().filter(|x| x.mtype() == *ty).collect();
    if !from_pool.is_empty() && chance(2, 3, "sv.pool") {
        let val = from_pool[choose(from_pool.len(), "sv.pick")].clone();
        // sometimes the image under a harness function (so `lower(..) in $l` / `len(..) in $l` can be true)
        SetVal::from_m(&val)
    } else {
        match ty {
            MType::Int | MType::Ip | MType::Bytes => SetVal::from_m(&gen_value(ty, 2)),
            _ => SetVal::Other(format!("v{}", choose(4, "sv.other"))),
        }
    }
}

fn check_state(spec: &SchemeSpec, scheme: &Scheme, ctx: &ExecutionContext<'_>, m: &ModelCtx, what: &str) -> Result<(), Violation> {
    let got = wgen::read_back(spec, scheme, ctx);
    if got != *m {
        return Err(v("state-differs", what.to_string(), format!("after {what}: context holds {:?}, model says {:?}", got, m)));
    }
    Ok(())
}

fn run(ctx: &RunCtx) -> Result<(), Violation> {
    seams::reset(ctx.run);
    let scenario = choose(1 + FIXED as usize, "scenario");
    let mut spec = if scenario > 0 {
        wgen::scheme_family(1)
    } else {
        wgen::gen_scheme(&[0, 3, 3, 4], true, false)
    };
    match scenario {
        1 => spec.lists = vec![(MType::Int, ListKind::Always)],
        2 => spec.lists = vec![(MType::Bool, ListKind::Never), (MType::Bytes, ListKind::Never), (MType::Int, ListKind::Set)],
        3 => spec.lists = vec![(MType::Ip, ListKind::Set)],
        4 => spec.lists = vec![(MType::Bytes, ListKind::Always), (MType::Int, ListKind::Set), (MType::Ip, ListKind::Always)],
        _ => {}
    }
    let scheme = spec.build();
    spec.verify_shape(&scheme).map_err(|e| v("scheme-shape", "", e))?;
    let mut model = wgen::gen_model_ctx(&spec, 4, false);
    // literal pool: leaves of the context values and their images under the harness functions
    let mut pool = Vec::new();
    for val in model.values.iter().flatten() {
        wgen::leaves(val, &mut pool);
    }
    let images: Vec<MValue> = pool
        .iter()
        .filter_map(|x| if let MValue::Bytes(b) = x { Some(vec![MValue::Bytes(b.to_ascii_lowercase()), MValue::Int(b.len() as i64)]) } else { None })
        .flatten()
        .collect();
    pool.extend(images);
    // make membership likely: seed the sets from the pool
    for (i, (ty, kind)) in spec.lists.iter().enumerate() {
        if *kind == ListKind::Set && matches!(ty, MType::Int | MType::Ip | MType::Bytes) {
            let n = choose(4, "seed.n");
            for _ in 0..n {
                let name = VALID_NAMES[choose(3, "seed.name")].to_string();
                let sv = gen_setval(ty, &pool);
                model.lists[i].as_mut().unwrap().entry(name).or_default().insert(sv);
            }
        }
    }
    let mut real = wgen::materialise(&spec, &scheme, &model);

    // ---- queries: parse-time behaviour
    let nq = if scenario > 0 { 3 } else { range(2, 4, "nq") };
    let mut queries: Vec<(Query, Arc<Filter>)> = Vec::new();
    for qi in 0..nq {
        let lhs = match scenario {
            1 => Lhs { field: 0, steps: vec![], func: None, text: "port".into(), prim: MType::Int, each: false },
            2 => Lhs { field: [0, 2, 1][qi % 3], steps: vec![], func: None, text: ["port", "http.host", "port_opt"][qi % 3].into(), prim: [MType::Int, MType::Bytes, MType::Int][qi % 3].clone(), each: false },
            3 => Lhs { field: [4, 0, 6][qi % 3], steps: vec![], func: None, text: ["ip.src", "port", "ssl"][qi % 3].into(), prim: [MType::Ip, MType::Int, MType::Bool][qi % 3].clone(), each: false },
            4 => Lhs { field: [2, 0, 4][qi % 3], steps: vec![], func: None, text: ["http.host", "port", "ip.src"][qi % 3].into(), prim: [MType::Bytes, MType::Int, MType::Ip][qi % 3].clone(), each: false },
            _ => match gen_lhs(&spec) {
                Some(l) => l,
                None => continue,
            },
        };
        let invalid_name = scenario == 0 && chance(1, 8, "q.invalid_name");
        let name = if invalid_name {
            INVALID_NAMES[choose(INVALID_NAMES.len(), "q.badname")].to_string()
        } else {
            VALID_NAMES[choose(VALID_NAMES.len(), "q.name")].to_string()
        };
        let all = chance(1, 2, "q.all");
        let inner = format!("{} in ${}", lhs.text, name);
        let text = if lhs.each { format!("{}({inner})", if all { "all" } else { "any" }) } else { inner };
        // the same query inside parentheses / after `not not`, laid out over lines: what follows a list name is then a
        // line break or a closing parenthesis instead of the end of the input (valid names only: what an invalid
        // name swallows of its surroundings is not this check's business)
        let text = if !invalid_name && chance(1, 4, "q.embedded") {
            kernel::count("q.embedded");
            // (forms that neither change the result nor make the matcher be asked again)
            let t = match choose(4, "q.embed_kind") {
                0 => format!("( {text}\n)"),
                1 => format!("not not {text}\n"),
                2 => format!("{text}\r\n"),
                _ => format!("( ( {text} ) )"),
            };
            wgen::vary_whitespace(&t)
        } else {
            text
        };
        let has_list = matches!(lhs.prim, MType::Int | MType::Ip | MType::Bytes) && spec.list_index(&lhs.prim).is_some();
        let parsed = catch_unwind(AssertUnwindSafe(|| scheme.parse(&text).map(|a| a.compile())));
        let parsed = match parsed {
            Ok(p) => p,
            Err(p) => return Err(v("parse-panicked", "", format!("`{text}`: {}", kernel::panic_message(&*p)))),
        };
        crate::tr!("query `{text}`: parse {}", if parsed.is_ok() { "ok" } else { "rejected" });
        match (parsed, has_list && !invalid_name) {
            (Ok(f), true) => queries.push((Query { lhs, name, all, text }, Arc::new(f))),
            (Err(_), false) => kernel::count("probe.parse_rejected"),
            (Ok(_), false) => {
                return Err(v(
                    "accepted-at-parse-time",
                    if invalid_name { "invalid-name" } else { "no-list-for-type" },
                    format!("`{text}` parsed although {}", if invalid_name { "the list name is invalid" } else { "no list is registered for the left-hand type" }),
                ));
            }
            (Err(e), true) => {
                return Err(v("rejected-at-parse-time", lhs.prim.short(), format!("`{text}` should parse (a list is registered for {}): {e}", lhs.prim.short())));
            }
        }
    }

    // ---- history
    let max_ops = if ctx.tier == crate::driver::Tier::Thorough { 20 } else { 8 };
    let nops = if scenario > 0 { 3 } else { range(2, max_ops, "nops") };
    let mut changed = false;
    let set_lists: Vec<usize> = spec.lists.iter().enumerate().filter(|(_, l)| l.1 == ListKind::Set).map(|(i, _)| i).collect();
    // snapshots that must stay independent: (context, model at the time)
    let mut frozen: Vec<(ExecutionContext<'static>, ModelCtx)> = Vec::new();
    for opi in 0..nops {
        let op = if scenario > 0 { 0 } else { choose_w(&[6, 4, 1, 2, 2, 3, 2, 1], "op") };
        match op {
            0 => {
                if queries.is_empty() {
                    continue;
                }
                let (q, f) = &queries[if scenario > 0 { opi % queries.len() } else { choose(queries.len(), "op.q") }];
                if can_execute(&spec, q, &model) {
                    check_execute(&spec, q, f, &real, &model, None)?;
                }
            }
            1 => {
                if set_lists.is_empty() {
                    continue;
                }
                let li = set_lists[choose(set_lists.len(), "mut.list")];
                let ty = spec.lists[li].0.clone();
                let name = VALID_NAMES[choose(4, "mut.name")].to_string();
                let sv = gen_setval(&ty, &pool);
                let remove = chance(1, 4, "mut.remove");
                crate::tr!("  {} {} {} list[{li}:{}].{name}", if remove { "remove" } else { "insert" }, sv.encode(), if remove { "from" } else { "into" }, ty.short());
                let sm = set_matcher(&spec, &scheme, &mut real, li);
                if remove {
                    if let Some(s) = sm.sets.get_mut(&name) {
                        s.remove(&sv);
                    }
                    if let Some(s) = model.lists[li].as_mut().unwrap().get_mut(&name) {
                        s.remove(&sv);
                    }
                } else {
                    sm.sets.entry(name.clone()).or_default().insert(sv.clone());
                    model.lists[li].as_mut().unwrap().entry(name).or_default().insert(sv);
                }
                kernel::count("op.mutate");
                changed = true;
            }
            2 => {
                crate::tr!("  clear");
                real.clear();
                model.clear();
                kernel::count("op.clear");
                changed = true;
                check_state(&spec, &scheme, &real, &model, "clear")?;
            }
            3 => {
                crate::tr!("  clone_with, continue on the clone");
                let clone = real.clone_with(());
                let old = std::mem::replace(&mut real, clone);
                frozen.push((old, model.clone()));
                kernel::count("op.clone");
                check_state(&spec, &scheme, &real, &model, "clone_with")?;
            }
            4 => {
                if set_lists.is_empty() {
                    continue;
                }
                let li = set_lists[choose(set_lists.len(), "bor.list")];
                let ty = spec.lists[li].0.clone();
                let name = VALID_NAMES[choose(4, "bor.name")].to_string();
                let sv = gen_setval(&ty, &pool);
                crate::tr!("  borrow_with: insert {} into list[{li}].{name} through the guard, execute, drop", sv.encode());
                {
                    let mut guard = real.borrow_with(7u8);
                    let list = scheme.get_list(&ty.to_type()).unwrap();
                    guard
                        .get_list_matcher_mut(list)
                        .as_any_mut()
                        .downcast_mut::<SetMatcher>()
                        .expect("SetMatcher")
                        .sets
                        .entry(name.clone())
                        .or_default()
                        .insert(sv.clone());
                }
                model.lists[li].as_mut().unwrap().entry(name).or_default().insert(sv);
                kernel::count("op.borrow");
                changed = true;
                check_state(&spec, &scheme, &real, &model, "borrow_with")?;
            }
            5 => {
                // serialise -> transport -> deserialise into a fresh context, continue on the result
                let text = match catch_unwind(AssertUnwindSafe(|| serde_json::to_vec(&real))) {
                    Ok(Ok(t)) => t,
                    Ok(Err(e)) => return Err(v("serialize-failed", "", e.to_string())),
                    Err(p) => return Err(v("serialize-panicked", "", kernel::panic_message(&*p))),
                };
                let consumer = gen_consumer();
                let stream = matches!(consumer, Consumer::Serde(e) if e.is_stream());
                let plan = if stream { gen_read_plan(text.len(), true) } else { ReadPlan::clean() };
                let mut fresh: ExecutionContext<'static> = ExecutionContext::new(&scheme);
                let mut st = IoStats::default();
                // the document must outlive the context it is deserialized into: leak (bounded: one per op)
                let doc: &'static [u8] = Box::leak(text.into_boxed_slice());
                let r = deliver_ctx(&mut fresh, consumer, doc, &plan, &mut st);
                crate::tr!("  roundtrip via {} plan={plan:?}: {r:?}", match consumer { Consumer::Serde(e) => e.name(), Consumer::CApi => "capi" });
                kernel::count("op.roundtrip");
                match r {
                    Err(p) => return Err(v("deserialize-panicked", "", p)),
                    Ok(Err(e)) => {
                        if st.hard {
                            // transport failed: the old context stays in use and must be untouched
                            check_state(&spec, &scheme, &real, &model, "failed-roundtrip")?;
                        } else if consumer == Consumer::Serde(Entry::Value) && e.contains("unknown field `data`") {
                            return Err(v("roundtrip-rejected", "lists-entry-order:value-tree", e));
                        } else {
                            return Err(v("roundtrip-rejected", "", format!("{e}; doc={}", String::from_utf8_lossy(doc))));
                        }
                    }
                    Ok(Ok(())) => {
                        if st.hard {
                            return Err(v("hard-fault-accepted", "", format!("{plan:?}")));
                        }
                        if fresh != real {
                            return Err(v(
                                "roundtrip-not-equal",
                                "",
                                format!("sent {:?}, received {:?}", wgen::read_back(&spec, &scheme, &real), wgen::read_back(&spec, &scheme, &fresh)),
                            ));
                        }
                        real = fresh;
                        check_state(&spec, &scheme, &real, &model, "roundtrip")?;
                    }
                }
            }
            7 => {
                // the matcher panics in the middle of an execution: the panic surfaces, nothing else changes
                if queries.is_empty() {
                    continue;
                }
                let (q, f) = &queries[choose(queries.len(), "boomq.q")];
                if !can_execute(&spec, q, &model) {
                    continue;
                }
                let (_, want_calls) = expected_query(&spec, q, &model, None);
                if want_calls.is_empty() {
                    continue;
                }
                let nth = 1 + choose(want_calls.len(), "boomq.nth") as u32;
                let fired_before = seams::fired_panics().len();
                seams::arm_panic("list.match", nth);
                let r = catch_unwind(AssertUnwindSafe(|| f.execute(&real)));
                seams::disarm_all();
                let fired = seams::fired_panics().len() > fired_before;
                seams::harness(|h| h.calls.clear());
                kernel::count("op.matcher_panics");
                crate::tr!("  execute `{}` with the matcher armed to panic at query {nth} -> {}", q.text, if r.is_err() { "unwound" } else { "returned" });
                // (a short-circuiting evaluation may legitimately never reach query `nth`)
                if r.is_ok() && fired {
                    return Err(v("matcher-panic-swallowed", "", format!("`{}`: the matcher panicked at query {nth} but execute returned {:?}", q.text, r)));
                }
                check_state(&spec, &scheme, &real, &model, "matcher-panicked")?;
                // and the same query answers as before afterwards
                check_execute(&spec, q, f, &real, &model, None)?;
            }
            _ => {
                // set a field (changes what the lhs evaluates to)
                if spec.fields.is_empty() {
                    continue;
                }
                let fi = choose(spec.fields.len(), "set.field");
                let val = gen_value(&spec.fields[fi].1, 3);
                crate::tr!("  set {} = {}", spec.fields[fi].0, val.render());
                let field = scheme.get_field(&spec.fields[fi].0).unwrap();
                real.set_field_value(field, val.to_lhs().unwrap()).map_err(|e| v("set-failed", "", e.to_string()))?;
                model.values[fi] = Some(val);
                changed = true;
            }
        }
    }
    check_state(&spec, &scheme, &real, &model, "history")?;
    for (old, m) in &frozen {
        check_state(&spec, &scheme, old, m, "clone-independence")?;
    }
    if real != wgen::materialise(&spec, &scheme, &model) {
        return Err(v("state-differs", "final-eq", "context != context rebuilt from the model"));
    }

    let spec_desc = spec.describe();
    let query_texts: Vec<String> = queries.iter().map(|(q, _)| q.text.clone()).collect();
    let final_lists = model.lists.clone();
    // ---- two-task phase: original and clone queried under the scheduler
    if scenario == 0 && !queries.is_empty() && chance(1, 3, "two_tasks") {
        kernel::count("probe.two_tasks");
        let clone = real.clone_with(());
        let spec = Arc::new(spec.clone());
        let model = Arc::new(model.clone());
        let queries = Arc::new(queries.clone());
        let mut fns: Vec<kernel::TaskFn> = Vec::new();
        for (t, c) in [real, clone].into_iter().enumerate() {
            let spec = spec.clone();
            let model = model.clone();
            let queries = queries.clone();
            fns.push(Box::new(move || {
                for (q, f) in queries.iter() {
                    kernel::point("c17.between");
                    if kernel::failed() {
                        return;
                    }
                    if can_execute(&spec, q, &model) {
                        if let Err(e) = check_execute(&spec, q, f, &c, &model, Some(t)) {
                            kernel::fail(e);
                            return;
                        }
                    }
                }
            }));
        }
        for (i, r) in kernel::run_tasks(fns).into_iter().enumerate() {
            if let Err(p) = r {
                return Err(v("task-died", "", format!("task {i}: {p}")));
            }
        }
    }
    if changed && kernel::counter("matcher.queries") > 0 {
        kernel::set_nontrivial();
    }
    if ctx.want_sample {
        kernel::set_sample(|| serde_json::json!({"kind": "list-history", "scheme": spec_desc, "queries": query_texts, "ops": nops, "final_list_state": format!("{:?}", final_lists)}));
    }
    Ok(())
}
