pub mod c08;
pub mod c10;
pub mod c14;
pub mod c15;
pub mod c17;
pub mod c18;
pub mod c19;
pub mod c20;

use crate::driver::PropDef;

pub fn lookup(id: &str) -> Option<&'static PropDef> {
    match id {
        "C08" => Some(&c08::DEF),
        "C10" => Some(&c10::DEF),
        "C14" => Some(&c14::DEF),
        "C15" => Some(&c15::DEF),
        "C17" => Some(&c17::DEF),
        "C18" => Some(&c18::DEF),
        "C19" => Some(&c19::DEF),
        "C20" => Some(&c20::DEF),
        _ => None,
    }
}
