pub mod c15;
pub mod c19;

use crate::driver::PropDef;

pub fn lookup(id: &str) -> Option<&'static PropDef> {
    match id {
        "C15" => Some(&c15::DEF),
        _ => None,
    }
}
