//! C14 — execution contexts survive serialisation and reject bad JSON safely.

use crate::driver::{PropDef, RunCtx};
use crate::jdoc::{self, J, Style};
use crate::kernel::{self, Violation, chance, choose, choose_w, range};
use crate::model::{MType, MValue, ModelCtx, deep_well_typed, gen_value};
use crate::refjson::{Expect, ref_apply};
use crate::seams::{Entry, FaultyWriter, Hard, IoStats, ReadPlan, WritePlan};
use crate::wgen::{self, ListKind, SchemeSpec};
use crate::with_de;
use serde::de::DeserializeSeed;
use std::panic::{AssertUnwindSafe, catch_unwind};
use wirefilter::{ExecutionContext, Filter, GetType, Scheme};

const FIXED: u32 = 5;

pub static DEF: PropDef = PropDef {
    id: "C14",
    engine: "wfsim serde",
    level: "fault_enumeration",
    rule: "one run = one generated context (model -> real) serialised by a tape-chosen producer (to_string, to_vec, to_writer over a fault-injecting Write, to_value), transported under a tape-chosen fault (none; EINTR / short I/O; hard I/O error or EOF at a chosen offset = crash point; stored-byte corruption; duplicated / reordered / re-encoded members; value swapped for another type's encoding; key renamed; nesting changed; $lists entry damaged or given a deep type descriptor) and consumed by a tape-chosen entry point (from_str, from_slice, from_reader, from_reader+BufReader, value tree, the C API) into a fresh or pre-populated context; non-trivial = a transport fault or mutation actually fired; distinct = distinct choice tapes",
    runs_quick: 1_200_000,
    runs_thorough: 40_000_000,
    directed: FIXED,
    env_groups: false,
    run,
    real: &[
        "wirefilter ExecutionContext / LhsValue / Array / Map / Bytes serde, $lists section, set_field_value_from_name",
        "wirefilter_ffi::wirefilter_deserialize_json_to_execution_context / wirefilter_serialize_execution_context_to_json",
        "filter parse / compile / execute (probe filters)",
        "serde_json",
    ],
    stub: &["byte source and sink (FaultyReader / FaultyWriter over memory)", "list matcher state (harness SetList plug-in behind the real ListDefinition / ListMatcher traits)"],
    assumptions: &[
        "serde_json and std::io adapters are the transport and are trusted",
        "reference reader refjson.rs defines which mutated documents are valid (dual encodings of Bytes and Map included)",
        "bytes after a complete top-level value are not part of the property (the C API does not call end())",
    ],
    required_probes: &[
        "fault.eintr", "fault.eof", "fault.ioerr", "fault.flip", "mut.dup", "mut.reorder", "mut.reencode", "mut.swap", "mut.rename", "mut.nest", "mut.lists",
        "entry.value-tree", "entry.from_reader", "entry.capi", "probe.nonutf8_key_depth2", "probe.prepopulated", "probe.writer_fault", "probe.refusal_burst",
    ],
    extra: None,
};

fn v(inv: &str, class: impl Into<String>, detail: impl Into<String>) -> Violation {
    Violation::new(&format!("C14/{inv}"), class, detail)
}

#[derive(Clone, Copy, PartialEq, Eq, Debug)]
pub enum Consumer {
    Serde(Entry),
    CApi,
}

impl Consumer {
    fn name(self) -> &'static str {
        match self {
            Consumer::Serde(e) => e.name(),
            Consumer::CApi => "capi",
        }
    }
}

pub fn gen_consumer() -> Consumer {
    match choose_w(&[2, 2, 4, 3, 3, 3], "consumer") {
        0 => Consumer::Serde(Entry::Str),
        1 => Consumer::Serde(Entry::Slice),
        2 => Consumer::Serde(Entry::Reader),
        3 => Consumer::Serde(Entry::BufReader),
        4 => Consumer::Serde(Entry::Value),
        _ => Consumer::CApi,
    }
}

fn note_consumer(c: Consumer) {
    kernel::count(match c {
        Consumer::Serde(Entry::Str) => "entry.from_str",
        Consumer::Serde(Entry::Slice) => "entry.from_slice",
        Consumer::Serde(Entry::Reader) => "entry.from_reader",
        Consumer::Serde(Entry::BufReader) => "entry.from_reader_buf",
        Consumer::Serde(Entry::Value) => "entry.value-tree",
        Consumer::CApi => "entry.capi",
    });
}

/// Deliver `bytes` into `ctx`. Outer Err = panic message.
pub fn deliver_ctx<'de>(ctx: &mut ExecutionContext<'de>, consumer: Consumer, bytes: &'de [u8], plan: &ReadPlan, stats: &mut IoStats) -> Result<Result<(), String>, String> {
    let mut st = IoStats::default();
    let r = match consumer {
        Consumer::Serde(entry) => catch_unwind(AssertUnwindSafe(|| with_de!(entry, bytes, plan, st, |de| (&mut *ctx).deserialize(de)))),
        Consumer::CApi => catch_unwind(AssertUnwindSafe(|| {
            // the C wrapper owns its context: move ours in and back out
            let owned = std::mem::replace(ctx, ExecutionContext::new(&ctx.scheme().clone()));
            let mut c = wirefilter_ffi::ExecutionContext::from(owned);
            wirefilter_ffi::wirefilter_clear_last_error();
            let ok = crate::seams::with_caller_buffer(bytes, |p, n| wirefilter_ffi::wirefilter_deserialize_json_to_execution_context(&mut c, p, n));
            *ctx = c.into();
            if ok {
                Ok(())
            } else {
                let p = wirefilter_ffi::wirefilter_get_last_error();
                let msg = if p.is_null() {
                    "<no last error>".to_string()
                } else {
                    unsafe { std::ffi::CStr::from_ptr(p) }.to_string_lossy().into_owned()
                };
                Err(msg)
            }
        })),
    };
    *stats = st;
    st.flush_counters();
    if st.hard {
        kernel::count(match plan.hard {
            Hard::Eof(_) => "fault.eof",
            _ => "fault.ioerr",
        });
    }
    r.map_err(|p| kernel::panic_message(&*p))
}

pub fn gen_read_plan(len: usize, allow_hard: bool) -> ReadPlan {
    let mut plan = ReadPlan::clean();
    match choose_w(&[3, 3, 2, if allow_hard { 3 } else { 0 }], "io.kind") {
        0 => {}
        1 => {
            let n = range(1, 4, "io.eintr_n");
            for _ in 0..n {
                plan.eintr_at.push(choose(len + 1, "io.eintr_at"));
            }
        }
        2 => {
            plan.max_chunk = range(1, 5, "io.chunk");
            if chance(1, 2, "io.eintr_too") {
                plan.eintr_at.push(choose(len + 1, "io.eintr_at"));
            }
        }
        _ => {
            if chance(1, 2, "io.hard_kind") {
                plan.hard = Hard::Eof(choose(len.max(1), "io.eof_at"));
            } else {
                plan.hard = Hard::IoErr(choose(len + 1, "io.err_at"));
            }
        }
    }
    plan
}

// ------------------------------------------------------------------ producing side

#[derive(Clone, Copy, Debug, PartialEq, Eq)]
enum Producer {
    ToString,
    ToVec,
    ToWriter,
    ToValue,
    CApi,
}

/// Serialize `ctx`; checks the producing-side invariants. Returns the document text.
fn produce(ctx: &ExecutionContext<'_>, producer: Producer, class: &str) -> Result<Vec<u8>, Violation> {
    let tv = serde_json::to_value(ctx).map_err(|e| v("serialize-failed", class, format!("to_value: {e}")))?;
    let bytes: Vec<u8> = match producer {
        Producer::ToString => serde_json::to_string(ctx).map_err(|e| v("serialize-failed", class, e.to_string()))?.into_bytes(),
        Producer::ToVec => serde_json::to_vec(ctx).map_err(|e| v("serialize-failed", class, e.to_string()))?,
        Producer::ToValue => serde_json::to_vec(&tv).unwrap(),
        Producer::CApi => {
            // the C API takes &mut: clone into a wrapper
            let mut c = wirefilter_ffi::ExecutionContext::from(ctx.clone_with(()));
            let r = wirefilter_ffi::wirefilter_serialize_execution_context_to_json(&mut c);
            let ok = r.status == wirefilter_ffi::Status::Success;
            let b = if r.json.ptr.is_null() { Vec::new() } else { unsafe { std::slice::from_raw_parts(r.json.ptr as *const u8, r.json.len) }.to_vec() };
            wirefilter_ffi::wirefilter_free_string(r.json);
            if !ok {
                return Err(v("serialize-failed", class, "C API serialization reported an error"));
            }
            b
        }
        Producer::ToWriter => {
            // benign faults first: must be transparent
            let mut plan = WritePlan::clean();
            let n = range(0, 3, "w.eintr_n");
            for _ in 0..n {
                plan.eintr_calls.push(choose(40, "w.eintr_call"));
            }
            if chance(1, 2, "w.short") {
                plan.max_chunk = range(1, 6, "w.chunk");
            }
            let mut w = FaultyWriter::new(plan);
            serde_json::to_writer(&mut w, ctx).map_err(|e| v("writer-benign-fault-failed", class, format!("EINTR/short writes must be retried transparently: {e}")))?;
            if w.eintr_fired > 0 {
                kernel::count_n("fault.w_eintr", w.eintr_fired);
            }
            if w.short_fired > 0 {
                kernel::count_n("fault.w_short", w.short_fired);
            }
            let good = w.out;
            // hard fault (disk full) at a tape-chosen offset: Err, never a panic
            if chance(1, 2, "w.hard") && !good.is_empty() {
                let at = choose(good.len(), "w.fail_at");
                let mut w2 = FaultyWriter::new(WritePlan {
                    eintr_calls: Vec::new(),
                    max_chunk: 0,
                    fail_at: Some(at),
                });
                let r = catch_unwind(AssertUnwindSafe(|| serde_json::to_writer(&mut w2, ctx)));
                kernel::count("probe.writer_fault");
                kernel::set_nontrivial();
                match r {
                    Err(p) => return Err(v("writer-fault-panic", class, kernel::panic_message(&*p))),
                    Ok(Ok(())) => return Err(v("writer-fault-ignored", class, format!("write error at byte {at} was swallowed"))),
                    Ok(Err(_)) => {
                        if !good.starts_with(&w2.out) {
                            return Err(v("writer-fault-garbage", class, "bytes written before the fault are not a prefix of the document"));
                        }
                    }
                }
            }
            good
        }
    };
    // exactly one JSON value, equal to to_value
    match serde_json::from_slice::<serde_json::Value>(&bytes) {
        Ok(val) if val == tv => Ok(bytes),
        Ok(val) => Err(v("producer-disagrees-with-to_value", class, format!("{:?} wrote {} but to_value is {tv}", producer, val))),
        Err(e) => Err(v("producer-not-json", class, format!("{:?} wrote {:?}: {e}", producer, String::from_utf8_lossy(&bytes)))),
    }
}

// ------------------------------------------------------------------ invariants on a consumed context

fn check_well_typed(spec: &SchemeSpec, scheme: &Scheme, ctx: &ExecutionContext<'_>, class: &str) -> Result<(), Violation> {
    for (name, ty, _) in &spec.fields {
        let f = scheme.get_field(name).unwrap();
        if let Some(val) = ctx.get_field_value(f) {
            if !deep_well_typed(val, &ty.to_type()) {
                return Err(v(
                    "ill-typed-value-stored",
                    class,
                    format!("field {name}: declared {} but holds {}", ty.short(), MValue::from_lhs(val).render()),
                ));
            }
        }
    }
    Ok(())
}

pub struct Probes {
    pub texts: Vec<String>,
    pub filters: Vec<Filter>,
}

pub fn gen_probes(spec: &SchemeSpec, scheme: &Scheme, models: &[&ModelCtx], n: usize) -> Probes {
    let mut pool = Vec::new();
    for m in models {
        for val in m.values.iter().flatten() {
            wgen::leaves(val, &mut pool);
        }
    }
    let mut texts = Vec::new();
    let mut filters = Vec::new();
    if spec.fields.is_empty() {
        return Probes { texts, filters };
    }
    for _ in 0..n {
        let Some(t) = wgen::gen_filter(spec, &pool, 2) else { continue };
        match catch_unwind(AssertUnwindSafe(|| scheme.parse(&t).map(|a| a.compile()))) {
            Ok(Ok(f)) => {
                texts.push(t);
                filters.push(f);
            }
            Ok(Err(_)) => kernel::count("discarded_unparsable"),
            Err(_) => kernel::count("discarded_parse_panic"),
        }
    }
    Probes { texts, filters }
}

fn mandatory_all_set(spec: &SchemeSpec, scheme: &Scheme, ctx: &ExecutionContext<'_>) -> bool {
    spec.fields
        .iter()
        .all(|(n, _, opt)| *opt || ctx.get_field_value(scheme.get_field(n).unwrap()).is_some())
}

/// Every probe filter executes without panicking; returns the results.
pub fn exec_probes(spec: &SchemeSpec, scheme: &Scheme, probes: &Probes, ctx: &ExecutionContext<'_>, class: &str) -> Result<Option<Vec<bool>>, Violation> {
    if !mandatory_all_set(spec, scheme, ctx) {
        return Ok(None);
    }
    let mut out = Vec::new();
    for (t, f) in probes.texts.iter().zip(&probes.filters) {
        match catch_unwind(AssertUnwindSafe(|| f.execute(ctx))) {
            Ok(Ok(b)) => out.push(b),
            Ok(Err(e)) => return Err(v("probe-scheme-mismatch", class, format!("{t}: {e}"))),
            Err(p) => return Err(v("probe-filter-panicked", class, format!("filter `{t}` panicked on the consumed context: {}", kernel::panic_message(&*p)))),
        }
    }
    Ok(Some(out))
}

fn overlay(target: &ModelCtx, source: &ModelCtx) -> ModelCtx {
    let mut m = target.clone();
    for (i, val) in source.values.iter().enumerate() {
        if val.is_some() {
            m.values[i] = val.clone();
        }
    }
    for (i, l) in source.lists.iter().enumerate() {
        if l.is_some() {
            m.lists[i] = l.clone();
        }
    }
    m
}

// ------------------------------------------------------------------ mutations

#[derive(Clone, Copy, Debug, PartialEq, Eq)]
enum Mutation {
    None,
    ReorderSorted,
    Reencode,
    Dup,
    Swap,
    Rename,
    Nest,
    Lists,
    Flip,
    Truncate,
}

fn swap_pool() -> J {
    let pool: Vec<J> = vec![
        J::Num("7".into()),
        J::Num("300".into()),
        J::Num("-5".into()),
        J::Num("1000000000000000000000000000000".into()),
        J::Num("1.5".into()),
        J::Str("hello".into()),
        J::Str("1.2.3.4".into()),
        J::Str("::1".into()),
        J::Bool(true),
        J::Null,
        J::Arr(vec![]),
        J::Arr(vec![J::Num("1".into()), J::Num("2".into())]),
        J::Arr(vec![J::Str("a".into())]),
        J::Obj(vec![]),
        J::Obj(vec![("k".into(), J::Str("v".into()))]),
        J::Obj(vec![("k".into(), J::Num("1".into()))]),
        J::Arr(vec![J::Arr(vec![J::Str("k".into()), J::Str("v".into())])]),
        J::Arr(vec![J::Arr(vec![J::Str("k".into())])]),
        J::Arr(vec![J::Num("256".into())]),
        J::Arr(vec![J::Arr(vec![J::Arr(vec![J::Num("255".into()), J::Num("0".into())]), J::Num("3".into())])]),
        J::Obj(vec![("k".into(), J::Arr(vec![J::Str("x".into())]))]),
        J::Arr(vec![J::Obj(vec![("k".into(), J::Num("2".into()))])]),
    ];
    pool[choose(pool.len(), "swap.pool")].clone()
}

/// Pick a tape-chosen position inside a value tree (depth-first walk with a tape-chosen stop).
fn pick_node<'a>(j: &'a mut J, budget: &mut usize) -> Option<&'a mut J> {
    if *budget == 0 {
        return Some(j);
    }
    *budget -= 1;
    match j {
        J::Arr(a) => {
            for e in a.iter_mut() {
                if let Some(n) = pick_node(e, budget) {
                    return Some(n);
                }
            }
            None
        }
        J::Obj(m) => {
            for (_, e) in m.iter_mut() {
                if let Some(n) = pick_node(e, budget) {
                    return Some(n);
                }
            }
            None
        }
        _ => None,
    }
}

fn count_nodes(j: &J) -> usize {
    1 + match j {
        J::Arr(a) => a.iter().map(count_nodes).sum(),
        J::Obj(m) => m.iter().map(|(_, e)| count_nodes(e)).sum(),
        _ => 0,
    }
}

fn sort_members(j: &mut J, in_lists_entry_too: bool, under_lists: bool) {
    match j {
        J::Arr(a) => a.iter_mut().for_each(|e| sort_members(e, in_lists_entry_too, under_lists)),
        J::Obj(m) => {
            let is_entry = under_lists && m.iter().any(|(k, _)| k == "type");
            if !is_entry || in_lists_entry_too {
                m.sort_by(|a, b| a.0.cmp(&b.0));
            }
            for (k, e) in m.iter_mut() {
                // only the entries directly under $lists are "entries"; their data is ordinary
                let ul = k == "$lists";
                sort_members(e, in_lists_entry_too, ul && !under_lists);
            }
        }
        _ => {}
    }
}

/// Apply one structural mutation to the field members of the document (never to `$lists`, except `Lists`).
fn mutate(doc: &mut J, mutation: Mutation, spec: &SchemeSpec) -> bool {
    let J::Obj(members) = doc else { return false };
    let field_idx: Vec<usize> = members.iter().enumerate().filter(|(_, (k, _))| k != "$lists").map(|(i, _)| i).collect();
    match mutation {
        Mutation::Dup => {
            if members.is_empty() {
                return false;
            }
            if !field_idx.is_empty() && chance(2, 3, "dup.field") {
                let i = field_idx[choose(field_idx.len(), "dup.which")];
                let mut m = members[i].clone();
                if chance(1, 2, "dup.newval") {
                    // the duplicate carries a different (valid) value: last one must win
                    let ty = &spec.fields[spec.field_index(&m.0).unwrap()].1;
                    m.1 = jdoc::parse(&serde_json::to_string(&gen_value(ty, 3).to_lhs().unwrap()).unwrap()).unwrap();
                }
                let at = choose(members.len() + 1, "dup.at");
                members.insert(at, m);
            } else {
                // duplicate a whole $lists member or an entry inside it
                let Some(li) = members.iter().position(|(k, _)| k == "$lists") else { return false };
                if chance(1, 2, "dup.lists_member") {
                    let m = members[li].clone();
                    members.push(m);
                } else if let J::Arr(entries) = &mut members[li].1 {
                    if entries.is_empty() {
                        return false;
                    }
                    let e = entries[choose(entries.len(), "dup.entry")].clone();
                    entries.push(e);
                }
            }
            kernel::count("mut.dup");
            true
        }
        Mutation::Swap => {
            if field_idx.is_empty() {
                return false;
            }
            let i = field_idx[choose(field_idx.len(), "swap.which")];
            let n = count_nodes(&members[i].1);
            let mut budget = choose(n, "swap.node");
            if let Some(node) = pick_node(&mut members[i].1, &mut budget) {
                *node = swap_pool();
            } else {
                members[i].1 = swap_pool();
            }
            kernel::count("mut.swap");
            true
        }
        Mutation::Rename => {
            if field_idx.is_empty() {
                return false;
            }
            let i = field_idx[choose(field_idx.len(), "ren.which")];
            let new = match choose(7, "ren.kind") {
                0 => format!("{}x", members[i].0),
                1 => members[i].0.to_uppercase() + "_",
                2 => "$list".to_string(),
                3 => String::new(),
                // long names, ASCII and not (error messages echo the name)
                4 => format!("{}.{}", members[i].0, "long_name_".repeat(range(5, 30, "ren.long"))),
                5 => format!("{}{}", "x".repeat(choose(4, "ren.pad")), "\u{e9}".repeat(range(20, 120, "ren.long"))),
                _ => format!("{}.{}", members[i].0, "\u{540d}\u{524d}".repeat(range(5, 40, "ren.long"))),
            };
            members[i].0 = new;
            kernel::count("mut.rename");
            true
        }
        Mutation::Nest => {
            if field_idx.is_empty() {
                return false;
            }
            let i = field_idx[choose(field_idx.len(), "nest.which")];
            let n = count_nodes(&members[i].1);
            let mut budget = choose(n, "nest.node");
            let wrap = chance(1, 2, "nest.wrap");
            let target = match pick_node(&mut members[i].1, &mut budget) {
                Some(node) => node,
                None => return false,
            };
            if wrap {
                let old = std::mem::replace(target, J::Null);
                *target = if chance(1, 2, "nest.how") { J::Arr(vec![old]) } else { J::Obj(vec![("k".into(), old)]) };
            } else {
                let inner = match target {
                    J::Arr(a) if !a.is_empty() => Some(a[0].clone()),
                    J::Obj(m) if !m.is_empty() => Some(m[0].1.clone()),
                    _ => None,
                };
                match inner {
                    Some(x) => *target = x,
                    None => return false,
                }
            }
            kernel::count("mut.nest");
            true
        }
        Mutation::Lists => {
            let Some(li) = members.iter().position(|(k, _)| k == "$lists") else { return false };
            let J::Arr(entries) = &mut members[li].1 else { return false };
            if entries.is_empty() {
                return false;
            }
            let ei = choose(entries.len(), "lists.entry");
            let J::Obj(em) = &mut entries[ei] else { return false };
            match choose(5, "lists.kind") {
                0 => {
                    // deep type descriptor
                    let depth = [33usize, 34, 40, 64, 130][choose(5, "lists.depth")];
                    let mut t = J::Str("Int".into());
                    for _ in 0..depth {
                        t = J::Obj(vec![(if chance(1, 2, "lists.layer") { "Map" } else { "Array" }.into(), t)]);
                    }
                    em[0].1 = t;
                }
                1 => em[0].1 = J::Obj(vec![("Array".into(), J::Obj(vec![("Map".into(), J::Str("Bool".into()))]))]), // unregistered type
                2 => em.reverse(),
                3 => {
                    em.pop();
                }
                _ => em[0].0 = "typ".into(),
            }
            kernel::count("mut.lists");
            true
        }
        _ => false,
    }
}

fn has_nonutf8_key_depth2(val: &MValue, depth: usize) -> bool {
    match val {
        MValue::Map(_, m) => m.iter().any(|(k, e)| (depth >= 1 && std::str::from_utf8(k).is_err()) || has_nonutf8_key_depth2(e, depth + 1)),
        MValue::Array(_, a) => a.iter().any(|e| has_nonutf8_key_depth2(e, depth + 1)),
        _ => false,
    }
}

// ------------------------------------------------------------------ one transport run

struct Setup {
    spec: SchemeSpec,
    scheme: Scheme,
    source: ModelCtx,
}

fn transport(setup: &Setup, producer: Producer, mutation: Mutation, consumer: Consumer, prepopulate: bool, allow_hard: bool, ctx: &RunCtx) -> Result<(), Violation> {
    let Setup { spec, scheme, source } = setup;
    let base_class = format!("{}/{}", consumer.name(), format!("{mutation:?}").to_lowercase());
    let src = wgen::materialise(spec, scheme, source);
    if source.values.iter().flatten().any(|x| has_nonutf8_key_depth2(x, 0)) {
        kernel::count("probe.nonutf8_key_depth2");
    }
    let text = produce(&src, producer, &format!("{}/{producer:?}", spec.family))?;
    let target_model = if prepopulate {
        kernel::count("probe.prepopulated");
        wgen::gen_model_ctx(spec, 3, false)
    } else {
        ModelCtx::new(spec.fields.len(), &spec.list_is_set())
    };

    // ---- transport faults on the document
    let mut doc = jdoc::parse(std::str::from_utf8(&text).unwrap()).map_err(|e| v("producer-not-json", &base_class, e))?;
    let mut style = Style::default();
    let mut structural = false;
    let mut bytes: Vec<u8>;
    let mut flipped = false;
    let mut truncated: Option<usize> = None;
    match mutation {
        Mutation::None => {}
        Mutation::ReorderSorted => {
            let entries_too = chance(1, 4, "reorder.entries");
            let J::Obj(members) = &mut doc else { unreachable!() };
            if let Some(li) = members.iter().position(|(k, _)| k == "$lists") {
                let m = members.remove(li);
                if chance(1, 2, "reorder.lists_first") {
                    members.insert(0, m);
                } else {
                    members.push(m);
                }
            }
            if chance(2, 3, "reorder.sort") {
                sort_members(&mut doc, entries_too, false);
            }
            kernel::count("mut.reorder");
            structural = true;
        }
        Mutation::Reencode => {
            style.escape_keys = chance(1, 2, "mut.esc_keys");
            style.escape_strings = chance(1, 2, "mut.esc_strs");
            style.whitespace = chance(1, 2, "mut.ws") || (!style.escape_keys && !style.escape_strings);
            kernel::count("mut.reencode");
            structural = true;
        }
        Mutation::Dup | Mutation::Swap | Mutation::Rename | Mutation::Nest | Mutation::Lists => {
            structural = mutate(&mut doc, mutation, spec);
        }
        Mutation::Flip | Mutation::Truncate => {}
    }
    bytes = if structural { jdoc::print(&doc, style).into_bytes() } else { text.clone() };
    if mutation == Mutation::Flip && !bytes.is_empty() {
        let n = range(1, 3, "flip.n");
        for _ in 0..n {
            let at = choose(bytes.len(), "flip.at");
            if chance(1, 2, "flip.kind") {
                bytes[at] ^= 1 << choose(8, "flip.bit");
            } else {
                const ALPHA: &[u8] = b"{}[]\",:0123456789abcdefghijklmnopqrstuvwxyz\\";
                bytes[at] = ALPHA[choose(ALPHA.len(), "flip.byte")];
            }
        }
        flipped = bytes != text;
        if flipped {
            kernel::count("fault.flip");
        }
    }
    if mutation == Mutation::Truncate && !bytes.is_empty() {
        let at = choose(bytes.len(), "trunc.at");
        truncated = Some(at);
    }
    if structural || flipped || truncated.is_some() {
        kernel::set_nontrivial();
    }

    // ---- expectation from the reference reader
    let expect = if flipped {
        Expect::Either("byte-level corruption carries no accept/reject expectation".into())
    } else if truncated.is_some() {
        Expect::Err("truncated inside the top-level value".into())
    } else {
        if consumer == Consumer::Serde(Entry::Value) && doc.has_duplicate_keys() {
            // a value tree cannot hold duplicates (the tree builder itself keeps one occurrence), so the
            // engine never sees the document the reference reader judges: no expectation either way
            Expect::Either("duplicate keys are not representable in a value tree".into())
        } else {
            ref_apply(spec, &target_model, &doc)
        }
    };
    // a document that repeats a member is neither malformed nor the output of a serializer: the property takes no
    // position on whether a reader keeps the last occurrence (what the engine does today), the first, or refuses the
    // document; what it may not do is store anything else
    let repeats = !flipped && truncated.is_none() && consumer != Consumer::Serde(Entry::Value) && doc.has_duplicate_keys();
    let expect_first = if repeats { Some(ref_apply(spec, &target_model, &doc.keep_first_keys())) } else { None };

    // ---- deliver
    let stream = matches!(consumer, Consumer::Serde(e) if e.is_stream());
    let mut plan = if stream { gen_read_plan(bytes.len(), allow_hard && truncated.is_none()) } else { ReadPlan::clean() };
    let deliver_bytes: &[u8] = match truncated {
        Some(at) if stream => {
            plan.hard = Hard::Eof(at);
            &bytes
        }
        Some(at) => {
            kernel::count("fault.eof");
            &bytes[..at]
        }
        None => &bytes,
    };
    note_consumer(consumer);
    let mut stats = IoStats::default();
    let mut target = wgen::materialise(spec, scheme, &target_model);
    let res = deliver_ctx(&mut target, consumer, deliver_bytes, &plan, &mut stats);
    if stats.eintr > 0 || stats.short > 0 || stats.hard {
        kernel::set_nontrivial();
    }
    let class = base_class;
    if ctx.want_sample {
        kernel::set_sample(|| {
            serde_json::json!({"kind": "context-transport", "scheme": spec.describe(), "producer": format!("{producer:?}"),
            "mutation": format!("{mutation:?}"), "consumer": consumer.name(), "prepopulated_target": prepopulate, "read_plan": format!("{plan:?}"),
            "document": String::from_utf8_lossy(&bytes).chars().take(300).collect::<String>(),
            "reference_expectation": match &expect { Expect::Ok(_) => "Ok".to_string(), Expect::Err(e) => format!("Err({e})"), Expect::Either(e) => format!("either({e})") },
            "outcome": match &res { Ok(Ok(())) => "Ok".to_string(), Ok(Err(e)) => format!("Err({e})"), Err(p) => format!("PANIC({p})") }})
        });
    }
    crate::tr!(
        "transport scheme={} producer={producer:?} mutation={mutation:?} consumer={} prepopulated={prepopulate} plan={plan:?}",
        spec.family,
        consumer.name()
    );
    crate::tr!("  document: {}", String::from_utf8_lossy(deliver_bytes));
    let res = match res {
        Err(p) => {
            return Err(v(
                "deserialize-panic",
                format!("{class}:{}", crate::seams::panic_class(&p)),
                format!("panicked: {p}; doc={}", String::from_utf8_lossy(deliver_bytes)),
            ));
        }
        Ok(r) => r,
    };
    crate::tr!("  outcome: {res:?}");

    // ---- always: nothing ill-typed is stored, whatever happened; probe filters run
    check_well_typed(spec, scheme, &target, &class)?;
    let probes = gen_probes(spec, scheme, &[source, &target_model], 4);
    let got = exec_probes(spec, scheme, &probes, &target, &class)?;

    // (a byte flip can close the top-level value early: `{"a":92233}7203...`; a fault placed behind that point is
    // behind a complete document, and reading no further is what the property's reader is entitled to do)
    if stats.hard && truncated.is_none() && !flipped {
        return match res {
            Err(_) => Ok(()),
            Ok(()) => Err(v("hard-fault-accepted", class, format!("plan {plan:?} fired but deserialization returned Ok"))),
        };
    }
    match (expect, res) {
        (Expect::Either(_), _) => Ok(()),
        (Expect::Err(_), Err(_)) => Ok(()),
        (Expect::Err(why), Ok(())) => Err(v(
            "invalid-document-accepted",
            class,
            format!("reference says: {why}; doc={}", String::from_utf8_lossy(deliver_bytes)),
        )),
        (Expect::Ok(_), Err(_)) if repeats => {
            kernel::count("dup.refused");
            Ok(())
        }
        (Expect::Ok(want_model), Ok(())) if repeats && target != wgen::materialise(spec, scheme, &want_model) => {
            // not the last occurrence: then it must be exactly the first
            kernel::count("dup.not_last");
            match expect_first {
                Some(Expect::Ok(first)) if target == wgen::materialise(spec, scheme, &first) => Ok(()),
                _ => Err(v(
                    "roundtrip-not-equal",
                    class,
                    format!("repeated member: neither the last nor the first occurrence was kept; got {:?}\n doc={}", wgen::read_back(spec, scheme, &target), String::from_utf8_lossy(deliver_bytes)),
                )),
            }
        }
        (Expect::Ok(_), Err(e)) => {
            let sub = if consumer == Consumer::Serde(Entry::Value) && e.contains("unknown field `data`") {
                // the $lists entry visitor wants "type" before "data"; a value tree iterates keys sorted
                "lists-entry-order:value-tree".to_string()
            } else {
                class
            };
            Err(v(
                "valid-document-rejected",
                sub,
                format!("{e}; doc={}", String::from_utf8_lossy(deliver_bytes)),
            ))
        }
        (Expect::Ok(want_model), Ok(())) => {
            let want = wgen::materialise(spec, scheme, &want_model);
            if target != want {
                let got_model = wgen::read_back(spec, scheme, &target);
                return Err(v(
                    "roundtrip-not-equal",
                    class,
                    format!("expected {:?}\n got {:?}\n doc={}", want_model, got_model, String::from_utf8_lossy(deliver_bytes)),
                ));
            }
            // re-serialisation is byte-identical to serialising the expected context
            let a = serde_json::to_string(&target).map_err(|e| v("serialize-failed", &class, e.to_string()))?;
            let b = serde_json::to_string(&want).map_err(|e| v("serialize-failed", &class, e.to_string()))?;
            if a != b {
                return Err(v("reserialisation-differs", class, format!("{a} vs {b}")));
            }
            if mutation == Mutation::None && !prepopulate && a.as_bytes() != text.as_slice() && producer != Producer::ToValue {
                return Err(v("reserialisation-differs", class, format!("{a} vs original {}", String::from_utf8_lossy(&text))));
            }
            // every probe filter gives the same result on both
            let want_res = exec_probes(spec, scheme, &probes, &want, &class)?;
            if got != want_res {
                return Err(v("probe-filter-differs", class, format!("filters {:?}: {:?} vs {:?}", probes.texts, got, want_res)));
            }
            if !prepopulate && mutation == Mutation::None {
                let orig = exec_probes(spec, scheme, &probes, &src, &class)?;
                if got != orig {
                    return Err(v("probe-filter-differs", class, format!("filters {:?}: {:?} vs source {:?}", probes.texts, got, orig)));
                }
            }
            Ok(())
        }
    }
}

fn run(ctx: &RunCtx) -> Result<(), Violation> {
    crate::seams::reset(ctx.run);
    let scenario = choose(1 + FIXED as usize, "scenario");
    if scenario > 0 {
        return directed(scenario, ctx);
    }
    let mut spec = wgen::gen_scheme(&[4, 6, 8, 8, 2, 2, 2, 1, 4], chance(2, 3, "with_lists"), false);
    if spec.family == "lists_only" && spec.lists.is_empty() {
        spec.lists.push((MType::Int, ListKind::Set));
    }
    let scheme = spec.build();
    let source = wgen::gen_model_ctx(&spec, 4, false);
    let setup = Setup { spec, scheme, source };
    let producer = [Producer::ToString, Producer::ToVec, Producer::ToWriter, Producer::ToValue, Producer::CApi][choose_w(&[3, 2, 3, 2, 1], "producer")];
    let mutation = [
        Mutation::None,
        Mutation::ReorderSorted,
        Mutation::Reencode,
        Mutation::Dup,
        Mutation::Swap,
        Mutation::Rename,
        Mutation::Nest,
        Mutation::Lists,
        Mutation::Flip,
        Mutation::Truncate,
    ][choose_w(&[6, 2, 2, 2, 4, 1, 2, 2, 3, 3], "mutation")];
    let consumer = gen_consumer();
    let prepopulate = chance(1, 3, "prepopulate");
    if chance(1, 25, "refusal_burst") {
        // many refused documents in a row on this thread (state that accumulates per thread must not exist)
        let n = [33usize, 65, 130, 300][choose(4, "burst.n")];
        let bad: &[u8] = [&b"{\"no.such.field\":1}"[..], &b"{\"$lists\":[{\"type\":{\"Array\":{\"Array\":\"Strng\"}},\"data\":{}}]}"[..], &b"{\"x\":[[[[[[[[[["[..], &b"[1,2"[..]][choose(4, "burst.doc")];
        let mut scratch = ExecutionContext::new(&setup.scheme);
        let mut st = IoStats::default();
        for _ in 0..n {
            match deliver_ctx(&mut scratch, Consumer::Serde(Entry::Reader), bad, &ReadPlan::clean(), &mut st) {
                Err(p) => return Err(v("deserialize-panic", "burst", p)),
                Ok(Ok(())) => return Err(v("invalid-document-accepted", "burst", String::from_utf8_lossy(bad).into_owned())),
                Ok(Err(_)) => {}
            }
        }
        kernel::count("probe.refusal_burst");
    }
    transport(&setup, producer, mutation, consumer, prepopulate, true, ctx)
}

fn directed(scenario: usize, ctx: &RunCtx) -> Result<(), Violation> {
    use MType::*;
    match scenario {
        1 => {
            // D6: zero fields + a list: to_string must still be JSON and round-trip
            let spec = SchemeSpec {
                family: "lists_only",
                fields: vec![],
                functions: vec![],
                lists: vec![(Int, ListKind::Set)],
                nil_ne: true,
            };
            let scheme = spec.build();
            let mut source = ModelCtx::new(0, &[true]);
            source.lists[0].as_mut().unwrap().insert("l".into(), [crate::model::SetVal::Int(7)].into_iter().collect());
            transport(&Setup { spec, scheme, source }, Producer::ToString, Mutation::None, Consumer::Serde(Entry::Str), false, false, ctx)
        }
        2 | 3 => {
            // D7: a context with list state through a value tree (2) / plain text control (3)
            let mut spec = wgen::scheme_family(0);
            spec.lists = vec![(Int, ListKind::Set)];
            let scheme = spec.build();
            let mut source = ModelCtx::new(spec.fields.len(), &[true]);
            source.values[0] = Some(MValue::Int(5));
            source.lists[0].as_mut().unwrap().insert("l".into(), [crate::model::SetVal::Int(7)].into_iter().collect());
            let consumer = if scenario == 2 { Consumer::Serde(Entry::Value) } else { Consumer::Serde(Entry::Reader) };
            transport(&Setup { spec, scheme, source }, Producer::ToString, Mutation::None, consumer, false, false, ctx)
        }
        4 => {
            // D2 through the C API: 34-layer type descriptor in $lists must be an error, not an abort
            let mut spec = wgen::scheme_family(0);
            spec.lists = vec![(Int, ListKind::Set)];
            let scheme = spec.build();
            let mut t = String::from("\"Int\"");
            for _ in 0..34 {
                t = format!("{{\"Array\":{t}}}");
            }
            let doc = format!("{{\"$lists\":[{{\"type\":{t},\"data\":{{}}}}]}}");
            let mut target = ExecutionContext::new(&scheme);
            let mut st = IoStats::default();
            kernel::count("mut.lists");
            match deliver_ctx(&mut target, Consumer::CApi, doc.as_bytes(), &ReadPlan::clean(), &mut st) {
                Err(p) => Err(v("deserialize-panic", format!("capi/lists:{}", crate::seams::panic_class(&p)), format!("panicked: {p}"))),
                Ok(Ok(())) => Err(v("invalid-document-accepted", "capi/lists", "34-layer list type accepted")),
                Ok(Err(_)) => Ok(()),
            }
        }
        _ => {
            // element of the wrong type inside a nested container must be rejected and not stored
            let spec = wgen::scheme_family(2);
            let scheme = spec.build();
            let doc = br#"{"map_arr":{"k":["a",[300]]},"arr_i":[1,"2"]}"#;
            let mut target = ExecutionContext::new(&scheme);
            let mut st = IoStats::default();
            kernel::count("mut.swap");
            match deliver_ctx(&mut target, Consumer::Serde(Entry::Reader), doc, &ReadPlan::clean(), &mut st) {
                Err(p) => Err(v("deserialize-panic", "from_reader/swap", p)),
                Ok(Ok(())) => Err(v("invalid-document-accepted", "from_reader/swap", "ill-typed nested element accepted")),
                Ok(Err(_)) => check_well_typed(&spec, &scheme, &target, "from_reader/swap"),
            }
        }
    }
}
