//! C15 — type and scheme encodings round-trip; over-deep or duplicate input is refused.

use crate::driver::{PropDef, RunCtx, Tier};
use crate::jdoc::{self, J, Style};
use crate::kernel::{self, Violation, chance, choose, choose_w, range};
use crate::model::{MType, gen_type};
use crate::seams::{Entry, Hard, IoStats, ReadPlan};
use crate::with_de;
use serde::Deserialize;
use std::panic::{AssertUnwindSafe, catch_unwind};
use wirefilter::{CompoundType, Scheme, SchemeBuilder, Type};
use wirefilter_ffi::{
    CPrimitiveType, CType, wirefilter_create_array_type, wirefilter_create_map_type, wirefilter_create_primitive_type,
    wirefilter_free_string, wirefilter_serialize_scheme_to_json, wirefilter_serialize_type_to_json,
};

const SWEEP_CHUNKS: u32 = 64;
const FIXED: u32 = 6;

pub static DEF: PropDef = PropDef {
    id: "C15",
    engine: "wfsim types",
    level: "fault_enumeration",
    rule: "one run = one scheme / type document delivered through a tape-chosen entry point (from_str, from_slice, from_reader, from_reader+BufReader, value tree) under a tape-chosen fault (none, EINTR, short reads, hard I/O error or early EOF at a chosen offset, duplicated / reordered / re-encoded members, descriptor deepened to 33..130 layers), or one chunk of the exhaustive type-identity sweep; non-trivial = a fault or structural mutation actually fired, or a sweep chunk; distinct = distinct choice tapes",
    runs_quick: 1_500_000,
    runs_thorough: 40_000_000,
    directed: FIXED + SWEEP_CHUNKS,
    env_groups: false,
    run,
    real: &["wirefilter Type/CompoundType/Scheme serde", "wirefilter_ffi::CType conversions and wirefilter_create_*_type", "serde_json"],
    stub: &["byte source (FaultyReader over an in-memory document)"],
    assumptions: &["serde_json and std::io adapters are the transport and are trusted", "reference model of the packed form: layer i (outermost = 0) is bit i, 1 = Map (the C ABI's CType exposes exactly this)", "the JSON syntax of types ({\"Array\": T}, {\"Map\": T}, primitive names) and of schemes ({name: {type, optional}}) is the wire format and is taken as given: a change of syntax that still round-trips would be reported"],
    required_probes: &["fault.eintr", "fault.eof", "fault.ioerr", "mut.dup", "mut.reorder", "mut.deepen", "entry.value-tree", "entry.from_reader", "producer.capi"],
    extra: None,
};

fn v(inv: &str, class: impl Into<String>, detail: impl Into<String>) -> Violation {
    Violation::new(&format!("C15/{inv}"), class, detail)
}

// ------------------------------------------------------------------ reference model of the packed form

fn layers_of(t: &MType) -> (Vec<bool>, &MType) {
    // outermost first; true = Map
    let mut out = Vec::new();
    let mut cur = t;
    loop {
        match cur {
            MType::Array(i) => {
                out.push(false);
                cur = i;
            }
            MType::Map(i) => {
                out.push(true);
                cur = i;
            }
            p => return (out, p),
        }
    }
}

fn model_ctype(t: &MType) -> (u32, u8, u8) {
    let (layers, prim) = layers_of(t);
    let mut bits = 0u32;
    for (i, is_map) in layers.iter().enumerate() {
        if *is_map {
            bits |= 1 << i;
        }
    }
    let p = match prim {
        MType::Ip => 1,
        MType::Bytes => 2,
        MType::Int => 3,
        MType::Bool => 4,
        _ => unreachable!(),
    };
    (bits, layers.len() as u8, p)
}

fn type_json_text(t: &MType) -> String {
    match t {
        MType::Bool => "\"Bool\"".into(),
        MType::Int => "\"Int\"".into(),
        MType::Ip => "\"Ip\"".into(),
        MType::Bytes => "\"Bytes\"".into(),
        MType::Array(i) => format!("{{\"Array\":{}}}", type_json_text(i)),
        MType::Map(i) => format!("{{\"Map\":{}}}", type_json_text(i)),
    }
}

fn build_mtype(bits: u32, n: usize, prim: usize) -> MType {
    // bit i (outermost = 0)
    let mut t = [MType::Bytes, MType::Int, MType::Ip, MType::Bool][prim].clone();
    for i in (0..n).rev() {
        t = if bits & (1 << i) != 0 { MType::map(t) } else { MType::arr(t) };
    }
    t
}

fn check_type_identities(t: &MType) -> Result<(), Violation> {
    let class = format!("layers={}", t.depth());
    let ty = match catch_unwind(AssertUnwindSafe(|| t.to_type())) {
        Ok(ty) => ty,
        Err(_) => return Err(v("type-build-panic", class, format!("building {} panicked", t.short()))),
    };
    // recursive -> model
    if MType::from_type(ty) != *t {
        return Err(v("recursive-form", class, format!("{} reads back as {}", t.short(), MType::from_type(ty).short())));
    }
    // recursive -> packed -> recursive
    let ct = CompoundType::from(ty);
    if Type::from(ct) != ty {
        return Err(v("compound-roundtrip", class, format!("{}: Type->CompoundType->Type changed it", t.short())));
    }
    // recursive -> C packed form, against the model
    let c = CType::from(ty);
    let (bits, len, prim) = model_ctype(t);
    if (c.layers, c.len, c.primitive) != (bits, len, prim) {
        return Err(v(
            "ctype-packing",
            class,
            format!("{}: CType{{layers:{:#b},len:{},prim:{}}} but model says {{{:#b},{},{}}}", t.short(), c.layers, c.len, c.primitive, bits, len, prim),
        ));
    }
    if Type::from(c) != ty {
        return Err(v("ctype-roundtrip", class, format!("{}: Type->CType->Type changed it", t.short())));
    }
    // C constructor pushes (inner first)
    let (layers, p) = layers_of(t);
    let mut built = wirefilter_create_primitive_type(match p {
        MType::Ip => CPrimitiveType::Ip,
        MType::Bytes => CPrimitiveType::Bytes,
        MType::Int => CPrimitiveType::Int,
        _ => CPrimitiveType::Bool,
    });
    for is_map in layers.iter().rev() {
        built = if *is_map { wirefilter_create_map_type(built) } else { wirefilter_create_array_type(built) };
    }
    if built != c {
        return Err(v("ctype-constructors", class, format!("{}: wirefilter_create_*_type gives {:?}, From<Type> gives {:?}", t.short(), built, c)));
    }
    // a type that differs in exactly one layer (or in the primitive) must compare unequal and encode differently
    {
        let (layers, prim) = layers_of(t);
        let mut bits = 0u32;
        for (i, m) in layers.iter().enumerate() {
            if *m {
                bits |= 1 << i;
            }
        }
        let n = layers.len();
        let pidx = match prim {
            MType::Bytes => 0,
            MType::Int => 1,
            MType::Ip => 2,
            _ => 3,
        };
        let other = if n == 0 { build_mtype(0, 0, (pidx + 1) % 4) } else { build_mtype(bits ^ (1 << (n - 1)), n, pidx) };
        let oty = other.to_type();
        if oty == ty || CompoundType::from(oty) == ct || CType::from(oty) == c {
            return Err(v("distinct-types-compare-equal", class, format!("{} and {} compare equal in one of the encodings", t.short(), other.short())));
        }
    }
    // JSON form
    let want = type_json_text(t);
    let got = serde_json::to_string(&ty).map_err(|e| v("type-json-ser", class.clone(), e.to_string()))?;
    if got != want {
        return Err(v("type-json", class, format!("{} serializes to {got}, model says {want}", t.short())));
    }
    let r = wirefilter_serialize_type_to_json(c);
    let cjson = unsafe { std::slice::from_raw_parts(r.json.ptr as *const u8, r.json.len) }.to_vec();
    let ok = r.status == wirefilter_ffi::Status::Success && cjson == want.as_bytes();
    wirefilter_free_string(r.json);
    if !ok {
        return Err(v("type-json-capi", class, format!("{}: C API type JSON {:?}", t.short(), String::from_utf8_lossy(&cjson))));
    }
    match serde_json::from_str::<Type>(&got) {
        Ok(back) if back == ty => {}
        other => return Err(v("type-json-roundtrip", class, format!("{}: JSON {got} reads back as {other:?}", t.short()))),
    }
    match serde_json::from_str::<CompoundType>(&got) {
        Ok(back) if back == ct => {}
        other => return Err(v("compound-json-roundtrip", class, format!("{}: JSON {got} reads back as {other:?}", t.short()))),
    }
    Ok(())
}

// ------------------------------------------------------------------ transport

fn gen_read_plan(len: usize, allow_hard: bool) -> ReadPlan {
    let mut plan = ReadPlan::clean();
    match choose_w(&[3, 3, 2, if allow_hard { 4 } else { 0 }], "io.kind") {
        0 => {}
        1 => {
            let n = range(1, 4, "io.eintr_n");
            for _ in 0..n {
                plan.eintr_at.push(choose(len + 1, "io.eintr_at"));
            }
        }
        2 => {
            plan.max_chunk = range(1, 5, "io.chunk");
            if chance(1, 2, "io.eintr_too") {
                plan.eintr_at.push(choose(len + 1, "io.eintr_at"));
            }
        }
        _ => {
            if chance(1, 2, "io.hard_kind") {
                plan.hard = Hard::Eof(choose(len.max(1), "io.eof_at"));
            } else {
                plan.hard = Hard::IoErr(choose(len + 1, "io.err_at"));
            }
            if chance(1, 3, "io.eintr_too") {
                plan.eintr_at.push(choose(len + 1, "io.eintr_at"));
            }
        }
    }
    plan
}

fn gen_entry() -> Entry {
    Entry::ALL[choose_w(&[2, 2, 4, 3, 3], "entry")]
}

fn note_entry(e: Entry) {
    kernel::count(match e {
        Entry::Str => "entry.from_str",
        Entry::Slice => "entry.from_slice",
        Entry::Reader => "entry.from_reader",
        Entry::BufReader => "entry.from_reader_buf",
        Entry::Value => "entry.value-tree",
    });
}

/// Deserialize a `T` through an entry point; `Err(panic message)` if it panicked.
fn deliver<T: for<'de> Deserialize<'de>>(entry: Entry, bytes: &[u8], plan: &ReadPlan, stats: &mut IoStats) -> Result<Result<T, String>, String> {
    let mut st = IoStats::default();
    let r = catch_unwind(AssertUnwindSafe(|| with_de!(entry, bytes, plan, st, |de| T::deserialize(de))));
    *stats = st;
    st.flush_counters();
    if st.hard {
        kernel::count(match plan.hard {
            Hard::Eof(_) => "fault.eof",
            _ => "fault.ioerr",
        });
    }
    r.map_err(|p| kernel::panic_message(&*p))
}

type FieldList = Vec<(String, MType, bool)>;

fn fields_of(s: &Scheme) -> FieldList {
    s.fields()
        .map(|f| (f.name().to_string(), MType::from_type(wirefilter::GetType::get_type(&f)), f.optional()))
        .collect()
}

const NAME_PIECES: &[&str] = &[
    "a", "b", "http", "host", "http.host", "ip.src", "x_1", "UPPER", "héllo", "wörld.ü", "q\"x", "back\\slash", "nl\nname", "\u{1}ctl",
    "tab\t", "/slash", "€", "\u{1F600}", "sp ace", "0", "$lists", "type", "optional",
    // names the engine itself knows in some other role: exported function definitions, operators and keywords of the
    // filter language, words of its own JSON forms (a field may be called anything)
    "concat", "any", "all", "lower", "len", "in", "not", "and", "or", "xor", "matches", "contains", "wildcard", "strict", "eq", "ne",
    "true", "false", "Array", "Map", "Bytes", "Int", "Ip", "Bool", "fields", "functions", "lists", "name", "data",
];

fn gen_name() -> String {
    match choose_w(&[6, 3, 1, 1, 2], "name.class") {
        0 => NAME_PIECES[choose(NAME_PIECES.len(), "name.piece")].to_string(),
        1 => format!(
            "{}.{}",
            NAME_PIECES[choose(NAME_PIECES.len(), "name.piece")],
            NAME_PIECES[choose(NAME_PIECES.len(), "name.piece")]
        ),
        2 => "long.".repeat(range(10, 60, "name.long")) + "end",
        3 => String::new(),
        _ => {
            // a name of 1..400 characters over one unit (1..4 bytes each) after 0..3 bytes of padding: multi-byte
            // characters at every alignment against any byte offset a reader might cut or copy at
            let unit = ["a", "\u{e9}", "\u{20ac}", "\u{1f600}", "\u{7f}"][choose(5, "name.unit")];
            let n = match choose(3, "name.len_class") {
                0 => range(1, 8, "name.units"),
                1 => range(9, 100, "name.units"),
                _ => range(101, 400, "name.units"),
            };
            "x".repeat(choose(4, "name.pad")) + &unit.repeat(n)
        }
    }
}

fn gen_fields(max: usize) -> FieldList {
    let n = choose_w(&[2, 6, 6, 6, 4, 4, 2, 2, 1], "scheme.nfields_class");
    let n = match n {
        0 => 0,
        1 => 1,
        2 => 2,
        3 => 3,
        4 => range(4, 8, "scheme.nfields"),
        5 => range(9, 16, "scheme.nfields"),
        6 => range(17, 30, "scheme.nfields"),
        7 => range(31, 40, "scheme.nfields"),
        // more fields than a machine word has bits
        _ => range(63, 140, "scheme.nfields"),
    }
    .min(max);
    let mut out: FieldList = Vec::new();
    for i in 0..n {
        let mut name = gen_name();
        if out.iter().any(|(n, _, _)| *n == name) {
            name = format!("{name}#{i}");
        }
        out.push((name, gen_type(3), chance(1, 2, "scheme.optional")));
    }
    out
}

fn build_scheme(fields: &FieldList) -> Scheme {
    let mut b = SchemeBuilder::new();
    for (n, t, o) in fields {
        if *o {
            b.add_optional_field(n, t.to_type()).unwrap();
        } else {
            b.add_field(n, t.to_type()).unwrap();
        }
    }
    if !fields.is_empty() && chance(1, 4, "builder.refused") {
        // a refused registration (the C API just returns false and the caller carries on) leaves no trace
        let (n, t, _) = &fields[choose(fields.len(), "builder.refused_which")];
        let other = if *t == MType::Int { MType::Bytes } else { MType::Int };
        let refused = if chance(1, 2, "builder.refused_kind") { b.add_field(n, other.to_type()) } else { b.add_optional_field(n, other.to_type()) };
        assert!(refused.is_err(), "a second registration of {n:?} was accepted");
        kernel::count("builder.refused");
    }
    b.build()
}

fn describe_fields(fl: &FieldList) -> String {
    fl.iter()
        .map(|(n, t, o)| format!("{n:?}:{}{}", t.short(), if *o { "?" } else { "" }))
        .collect::<Vec<_>>()
        .join(", ")
}

#[derive(Clone, Copy, PartialEq, Eq, Debug)]
enum Mutation {
    None,
    Reorder,
    Reencode,
    Dup,
    DeepenField(usize),
}

/// One scheme transport run. `forced` pins entry / mutation for directed scenarios.
fn scheme_transport(fields: FieldList, entry: Entry, mutation: Mutation, plan_hard: bool, ctx: &RunCtx) -> Result<(), Violation> {
    let scheme = build_scheme(&fields);
    let text = serde_json::to_string(&scheme).map_err(|e| v("scheme-serialize", "", e.to_string()))?;
    // producing side: must be one JSON value equal to to_value
    let as_value: serde_json::Value =
        serde_json::from_str(&text).map_err(|e| v("scheme-serialize-not-json", "", format!("{text}: {e}")))?;
    let tv = serde_json::to_value(&scheme).map_err(|e| v("scheme-to-value", "", e.to_string()))?;
    if tv != as_value {
        return Err(v("scheme-to-value-differs", "", format!("to_string {text} vs to_value {tv}")));
    }
    if chance(1, 3, "producer.capi") {
        // the C API writes the same scheme out (a handle to it: same scheme object, the C side's own entry point)
        kernel::count("producer.capi");
        let handle = wirefilter_ffi::Scheme::from(scheme.clone());
        let r = wirefilter_serialize_scheme_to_json(&handle);
        let cjson = if r.json.ptr.is_null() { Vec::new() } else { unsafe { std::slice::from_raw_parts(r.json.ptr as *const u8, r.json.len) }.to_vec() };
        let ok = r.status == wirefilter_ffi::Status::Success && cjson == text.as_bytes();
        wirefilter_free_string(r.json);
        if !ok {
            return Err(v("scheme-json-capi", "", format!("the C API writes the scheme as {:?}, the engine as {text}", String::from_utf8_lossy(&cjson))));
        }
    }
    let mut doc = jdoc::parse(&text).map_err(|e| v("scheme-serialize-not-json", "", format!("{text}: {e}")))?;
    let mut expect_fields = fields.clone();
    let mut expect_ok = true;
    let mut either = false;
    let mut style = Style::default();
    let J::Obj(members) = &mut doc else {
        return Err(v("scheme-json-not-object", "", text));
    };
    match mutation {
        Mutation::None => {}
        Mutation::Reorder => {
            if members.len() >= 2 {
                // rotate by a tape-chosen amount: document order is field order
                let k = 1 + choose(members.len() - 1, "mut.rot");
                members.rotate_left(k);
                expect_fields.rotate_left(k);
                kernel::count("mut.reorder");
                kernel::set_nontrivial();
            }
            // members inside a field description
            for (_, m) in members.iter_mut() {
                if let J::Obj(inner) = m {
                    if chance(1, 2, "mut.inner_swap") {
                        inner.reverse();
                    }
                }
            }
        }
        Mutation::Reencode => {
            style.escape_keys = chance(1, 2, "mut.esc_keys");
            style.escape_strings = chance(1, 2, "mut.esc_strs");
            style.whitespace = chance(1, 2, "mut.ws") || (!style.escape_keys && !style.escape_strings);
            kernel::count("mut.reencode");
            kernel::set_nontrivial();
        }
        Mutation::Dup => {
            if !members.is_empty() {
                let i = choose(members.len(), "mut.dup_which");
                let at = choose(members.len() + 1, "mut.dup_at");
                let m = members[i].clone();
                members.insert(at, m);
                expect_ok = false;
                kernel::count("mut.dup");
                kernel::set_nontrivial();
            }
        }
        Mutation::DeepenField(depth) => {
            if !members.is_empty() {
                let i = choose(members.len(), "mut.deep_which");
                let mut t = J::Str("Int".into());
                for _ in 0..depth {
                    t = J::Obj(vec![(if chance(1, 2, "mut.deep_layer") { "Map" } else { "Array" }.to_string(), t)]);
                }
                if let J::Obj(inner) = &mut members[i].1 {
                    for (k, val) in inner.iter_mut() {
                        if k == "type" {
                            *val = t.clone();
                        }
                    }
                }
                expect_ok = false;
                either = depth == 33; // representable by the recursive form alone: accept or reject, never panic
                kernel::count("mut.deepen");
                kernel::set_nontrivial();
            }
        }
    }
    let bytes = jdoc::print(&doc, style).into_bytes();
    let has_dup = doc.has_duplicate_keys();
    let plan = if entry.is_stream() { gen_read_plan(bytes.len(), plan_hard) } else { ReadPlan::clean() };
    note_entry(entry);
    let mut stats = IoStats::default();
    let res = deliver::<Scheme>(entry, &bytes, &plan, &mut stats);
    if stats.eintr > 0 || stats.short > 0 || stats.hard {
        kernel::set_nontrivial();
    }
    let class = format!("{}/{:?}", entry.name(), mutation_class(mutation));
    if ctx.want_sample {
        kernel::set_sample(|| {
            serde_json::json!({"kind": "scheme-transport", "fields": describe_fields(&fields), "entry": entry.name(),
            "mutation": format!("{mutation:?}"), "read_plan": format!("{plan:?}"), "document_bytes": bytes.len(),
            "outcome": match &res { Ok(Ok(_)) => "Ok".to_string(), Ok(Err(e)) => format!("Err({e})"), Err(p) => format!("PANIC({p})") }})
        });
    }
    crate::tr!("scheme-transport entry={} mutation={mutation:?} plan={plan:?} doc={}", entry.name(), String::from_utf8_lossy(&bytes));
    let res = match res {
        Err(p) => return Err(v("scheme-deserialize-panic", class, format!("panicked: {p}; doc={}", String::from_utf8_lossy(&bytes)))),
        Ok(r) => r,
    };
    if stats.hard {
        // a hard transport fault was observed by the deserializer: must be an error
        return match res {
            Err(_) => Ok(()),
            Ok(_) => Err(v("hard-fault-accepted", class, format!("plan {plan:?} fired but deserialization returned Ok"))),
        };
    }
    if either {
        return Ok(());
    }
    if !expect_ok {
        if entry == Entry::Value && has_dup {
            // a value tree cannot hold a duplicate key: nothing to reject there
            return Ok(());
        }
        return match res {
            Err(_) => Ok(()),
            Ok(s) => Err(v(
                if matches!(mutation, Mutation::Dup) { "duplicate-accepted" } else { "over-deep-accepted" },
                class,
                format!("doc {} was accepted as {}", String::from_utf8_lossy(&bytes), describe_fields(&fields_of(&s))),
            )),
        };
    }
    match res {
        Err(e) => Err(v(
            "scheme-roundtrip-rejected",
            class,
            format!("fields [{}] doc {} rejected: {e}", describe_fields(&fields), String::from_utf8_lossy(&bytes)),
        )),
        Ok(s) => {
            let mut got = fields_of(&s);
            let mut want = expect_fields;
            if entry == Entry::Value {
                // a value tree iterates keys sorted: order is not representable there
                got.sort();
                want.sort();
            }
            if got != want {
                return Err(v(
                    "scheme-roundtrip-differs",
                    class,
                    format!("sent [{}] got [{}]", describe_fields(&want), describe_fields(&got)),
                ));
            }
            read_scheme_usable(&s, &class)
        }
    }
}

/// A scheme that came out of a deserializer is a scheme like any other: what it enumerates is what a lookup by name
/// finds, it writes itself out as what it enumerates, and a context over it takes and returns a value of a field's type.
fn read_scheme_usable(s: &Scheme, class: &str) -> Result<(), Violation> {
    use wirefilter::GetType;
    let listed = fields_of(s);
    if s.field_count() != listed.len() {
        return Err(v("scheme-roundtrip-differs", format!("{class}/use"), format!("field_count() {} but {} fields enumerated", s.field_count(), listed.len())));
    }
    for (i, (name, ty, optional)) in listed.iter().enumerate() {
        match s.get_field(name) {
            Ok(f) if f.index() == i && f.name() == name && MType::from_type(f.get_type()) == *ty && f.optional() == *optional => {}
            other => {
                return Err(v(
                    "scheme-roundtrip-differs",
                    format!("{class}/use"),
                    format!("field #{i} {name:?}: {} as enumerated, but lookup by name gives {other:?}", ty.short()),
                ));
            }
        }
    }
    let again = catch_unwind(AssertUnwindSafe(|| serde_json::to_string(s).map_err(|e| e.to_string())))
        .map_err(|p| v("scheme-serialize-panic", format!("{class}/use"), kernel::panic_message(&*p)))?
        .map_err(|e| v("scheme-serialize", format!("{class}/use"), e))?;
    let rebuilt = serde_json::to_string(&build_scheme(&listed)).map_err(|e| v("scheme-serialize", format!("{class}/use"), e.to_string()))?;
    if again != rebuilt {
        return Err(v("scheme-roundtrip-differs", format!("{class}/use"), format!("the read scheme writes itself as {again}, a scheme built from what it enumerates as {rebuilt}")));
    }
    if !listed.is_empty() {
        let i = choose(listed.len(), "use.field");
        let (name, ty, _) = &listed[i];
        let val = crate::model::gen_value(ty, 2);
        let r = catch_unwind(AssertUnwindSafe(|| {
            let mut ctx = wirefilter::ExecutionContext::<()>::new(s);
            let f = s.get_field(name).unwrap();
            let set = ctx.set_field_value(f, val.to_lhs().unwrap()).map(|_| ()).map_err(|e| e.to_string());
            let back = ctx.get_field_value(f).map(|v| crate::model::MValue::from_lhs(v));
            (set, back)
        }))
        .map_err(|p| v("scheme-roundtrip-differs", format!("{class}/use"), format!("a context over the read scheme panicked: {}", kernel::panic_message(&*p))))?;
        if r.0.is_err() || r.1.as_ref() != Some(&val) {
            return Err(v(
                "scheme-roundtrip-differs",
                format!("{class}/use"),
                format!("field {name:?}: {}: setting {val:?} on a context over the read scheme gave {:?}, reading it back {:?}", ty.short(), r.0, r.1),
            ));
        }
    }
    Ok(())
}

fn mutation_class(m: Mutation) -> &'static str {
    match m {
        Mutation::None => "plain",
        Mutation::Reorder => "reorder",
        Mutation::Reencode => "reencode",
        Mutation::Dup => "dup",
        Mutation::DeepenField(_) => "deepen",
    }
}

fn deep_descriptor(depth: usize, entry: Entry) -> Result<(), Violation> {
    let mut t = String::from("\"Bytes\"");
    for _ in 0..depth {
        t = format!("{{\"{}\":{}}}", if chance(1, 2, "deep.layer") { "Map" } else { "Array" }, t);
    }
    kernel::count("mut.deepen");
    kernel::set_nontrivial();
    note_entry(entry);
    let plan = ReadPlan::clean();
    let mut stats = IoStats::default();
    let class = format!("{}/depth{}", entry.name(), if depth <= 40 { "33-40" } else { "41+" });
    crate::tr!("deep-descriptor depth={depth} entry={}", entry.name());
    match deliver::<Type>(entry, t.as_bytes(), &plan, &mut stats) {
        Err(p) => return Err(v("deep-type-panic", class, format!("{depth}-layer type descriptor panicked: {p}"))),
        Ok(Ok(ty)) => {
            // The recursive form alone *can* hold 33 layers (one enum layer around a full 32-layer packed
            // type), so a 33-layer descriptor read as `Type` may be accepted -- but then it must be that very type.
            let same = depth == 33 && catch_unwind(AssertUnwindSafe(|| serde_json::to_string(&ty).ok())).ok().flatten().as_deref() == Some(t.as_str());
            if !same {
                return Err(v("deep-type-accepted", class, format!("{depth}-layer descriptor accepted as {ty:?}")));
            }
            // accepted, so it is a value like any other: writing it out (what every error text naming a type does)
            // must not be where the over-deep input finally panics
            if let Err(p) = catch_unwind(AssertUnwindSafe(|| ty.to_string())) {
                return Err(v("deep-type-panic", format!("{class}/display"), format!("the accepted {depth}-layer type panics when displayed: {}", kernel::panic_message(&*p))));
            }
        }
        Ok(Err(_)) => {}
    }
    match deliver::<CompoundType>(entry, t.as_bytes(), &plan, &mut stats) {
        Err(p) => Err(v("deep-type-panic", class, format!("{depth}-layer compound descriptor panicked: {p}"))),
        Ok(Ok(ty)) => Err(v("deep-type-accepted", class, format!("{depth}-layer descriptor accepted as {ty:?}"))),
        Ok(Err(_)) => Ok(()),
    }
}

fn type_transport(t: &MType, entry: Entry) -> Result<(), Violation> {
    let ty = t.to_type();
    let text = type_json_text(t);
    let style = Style {
        whitespace: chance(1, 3, "tt.ws"),
        escape_keys: chance(1, 4, "tt.esc"),
        escape_strings: chance(1, 4, "tt.escs"),
    };
    let bytes = jdoc::print(&jdoc::parse(&text).unwrap(), style).into_bytes();
    let plan = if entry.is_stream() { gen_read_plan(bytes.len(), true) } else { ReadPlan::clean() };
    note_entry(entry);
    let mut stats = IoStats::default();
    let r = deliver::<Type>(entry, &bytes, &plan, &mut stats);
    if stats.eintr > 0 || stats.short > 0 || stats.hard {
        kernel::set_nontrivial();
    }
    let class = format!("{}/type", entry.name());
    match r {
        Err(p) => Err(v("type-deserialize-panic", class, p)),
        Ok(Ok(back)) => {
            if stats.hard {
                Err(v("hard-fault-accepted", class, format!("plan {plan:?} fired but Ok")))
            } else if back != ty {
                Err(v("type-transport-differs", class, format!("{} read back as {back:?}", t.short())))
            } else {
                Ok(())
            }
        }
        Ok(Err(e)) => {
            if stats.hard {
                Ok(())
            } else {
                Err(v("type-transport-rejected", class, format!("{} via {:?}: {e}", String::from_utf8_lossy(&bytes), plan)))
            }
        }
    }
}

/// After whatever the run did (including refused documents): a full-depth type and a small scheme must still
/// round-trip on this very thread - a refusal must not leave anything behind.
fn control_after(res: Result<(), Violation>) -> Result<(), Violation> {
    res?;
    let t = build_mtype(0x5555_5555, 32, 1);
    let text = type_json_text(&t);
    match catch_unwind(AssertUnwindSafe(|| serde_json::from_str::<Type>(&text))) {
        Ok(Ok(ty)) if MType::from_type(ty) == t => {}
        other => return Err(v("refusal-poisons-later-calls", "type", format!("after this run's documents a valid 32-layer type is no longer read back: {:?}", other.map(|r| r.map(|_| "a different type").map_err(|e| e.to_string())).map_err(|_| "panic")))),
    }
    let scheme_text = r#"{"a":{"type":{"Map":{"Array":"Ip"}},"optional":true}}"#;
    match catch_unwind(AssertUnwindSafe(|| serde_json::from_str::<Scheme>(scheme_text))) {
        Ok(Ok(s)) if s.field_count() == 1 => Ok(()),
        _ => Err(v("refusal-poisons-later-calls", "scheme", "a small valid scheme is no longer accepted after this run's documents".to_string())),
    }
}

fn run(ctx: &RunCtx) -> Result<(), Violation> {
    control_after(run_inner(ctx))
}

fn run_inner(ctx: &RunCtx) -> Result<(), Violation> {
    crate::seams::reset(ctx.run);
    let scenario = choose((1 + FIXED + SWEEP_CHUNKS) as usize, "scenario") as u32;
    let simple: FieldList = vec![("a.b".into(), MType::Int, false), ("host".into(), MType::Bytes, true)];
    match scenario {
        0 => {}
        1 => return scheme_transport(simple, Entry::Reader, Mutation::None, false, ctx),
        2 => return scheme_transport(simple, Entry::Value, Mutation::None, false, ctx),
        3 => return scheme_transport(vec![("q\"x".into(), MType::Int, false)], Entry::Str, Mutation::None, false, ctx),
        4 => return deep_descriptor(34, Entry::Str),
        5 => return scheme_transport(simple, Entry::Str, Mutation::Dup, false, ctx),
        6 => return scheme_transport(simple, Entry::Slice, Mutation::DeepenField(40), false, ctx),
        s => {
            // exhaustive sweep chunk
            let chunk = s - 1 - FIXED;
            let max_layers = if ctx.tier == Tier::Thorough { 12 } else { 8 };
            let mut idx = 0u32;
            let mut done = 0u64;
            for n in 0..=max_layers {
                for bits in 0..(1u32 << n) {
                    for prim in 0..4 {
                        if idx % SWEEP_CHUNKS == chunk {
                            check_type_identities(&build_mtype(bits, n, prim))?;
                            done += 1;
                        }
                        idx += 1;
                    }
                }
            }
            kernel::count_n("sweep.types", done);
            kernel::set_nontrivial();
            if ctx.want_sample {
                kernel::set_sample(|| serde_json::json!({"kind": "type-identity-sweep", "chunk": chunk, "max_layers": max_layers, "types_checked": done}));
            }
            return Ok(());
        }
    }
    match choose_w(&[8, 2, 2, 2], "kind") {
        0 => {
            let fields = gen_fields(140);
            let entry = gen_entry();
            let mutation = match choose_w(&[4, 2, 2, 2, 1], "mutation") {
                0 => Mutation::None,
                1 => Mutation::Reorder,
                2 => Mutation::Reencode,
                3 => Mutation::Dup,
                _ => Mutation::DeepenField(range(33, 130, "mut.depth")),
            };
            scheme_transport(fields, entry, mutation, true, ctx)
        }
        1 => {
            // sampled deep types: all-array, all-map, alternating, random, 13..32 layers
            let n = range(13, 32, "deep.n");
            let bits = match choose(4, "deep.shape") {
                0 => 0u32,
                1 => u32::MAX,
                2 => 0xAAAA_AAAA,
                _ => ((choose(1 << 16, "deep.hi") as u32) << 16) | choose(1 << 16, "deep.lo") as u32,
            };
            let bits = if n == 32 { bits } else { bits & ((1u32 << n) - 1) };
            kernel::count("sweep.sampled_deep");
            kernel::set_nontrivial();
            check_type_identities(&build_mtype(bits, n, choose(4, "deep.prim")))
        }
        2 => deep_descriptor(range(33, 130, "deep.depth"), gen_entry()),
        _ => type_transport(&gen_type(12), gen_entry()),
    }
}
