//! C08 — execution contexts are typed field maps bound to one scheme.

use crate::driver::{PropDef, RunCtx, Tier};
use crate::kernel::{self, Violation, chance, choose, choose_w, range};
use crate::model::{MType, MValue, ModelCtx, deep_well_typed, gen_type, gen_value};
use crate::props::c14::{Consumer, Probes, deliver_ctx, exec_probes, gen_consumer, gen_probes, gen_read_plan};
use crate::seams::{self, IoStats, ReadPlan};
use crate::wgen::{self, ListKind, SchemeSpec};
use std::panic::{AssertUnwindSafe, catch_unwind};
use wirefilter::{Array, ExecutionContext, GetType, LhsValue, Map, Scheme, SchemeMismatchError, SetFieldValueError, Type, TypeMismatchError, TypedArray, TypedMap, UnknownFieldError};

pub static DEF: PropDef = PropDef {
    id: "C08",
    engine: "wfsim ctx",
    level: "exploration",
    rule: "one run = a history of <= 12 (quick) / <= 40 (thorough) operations over {set by field, set by name, get, clear, clone_with, borrow_with + writes through the guard + drop, take_with, new_with, build a container through each public constructor from a mixed pool, deserialise a document through a faulty transport, execute probe filters / value expressions, set through a twin scheme's handle, execute a twin-scheme filter} on a generated scheme with a per-field pool of one well-typed and several ill-typed values, with injected unwinding (harness function while an ExecutionContextGuard is alive, new_with / take_with closures, matcher clone / clear) and stream faults, optionally continued on original and clone by two scheduled tasks; after every operation the return value and the whole context are compared with the ModelCtx; non-trivial = at least one failing operation, one successful write and one injected unwind or transport fault or guard; distinct = distinct choice tapes",
    runs_quick: 1_000_000,
    runs_thorough: 30_000_000,
    directed: 0,
    env_groups: false,
    run,
    real: &["ExecutionContext (set / get / clear / clone_with / borrow_with / take_with / new_with, guard Drop)", "Array / Map / TypedArray / TypedMap constructors", "Filter::execute / FilterValue::execute scheme binding", "context deserialisation"],
    stub: &["user functions and list matchers (harness plug-ins with fault points)", "byte source (FaultyReader)", "thread scheduler for the two-task phase"],
    assumptions: &["get_field_value / get_list_matcher with a foreign handle are documented-by-construction asserts and are not in the operation pool", "executing a filter that reads an unset mandatory field panics by design; probes run only when every mandatory field is set"],
    required_probes: &["op.set_ok", "op.set_type_mismatch", "op.set_unknown", "op.set_twin", "op.exec_twin", "op.clear", "op.clone", "op.borrow", "op.take", "op.build_ok", "op.build_rejected", "op.deser", "unwind.guard", "unwind.clone", "unwind.clear", "unwind.closure", "unwind.into_value", "probe.two_tasks", "op.fail_burst", "builder.refused"],
    extra: None,
};

fn v(inv: &str, class: impl Into<String>, detail: impl Into<String>) -> Violation {
    Violation::new(&format!("C08/{inv}"), class, detail)
}

struct World {
    spec: SchemeSpec,
    scheme: Scheme,
    twin: Scheme,
    probes: Probes,
    twin_probes: Probes,
    boom_filter: Option<wirefilter::Filter>,
}

/// A value whose type differs from `ty` (wrong primitive / right container, wrong element / wrong depth).
fn ill_typed(ty: &MType) -> MValue {
    let other = match choose(3, "ill.kind") {
        0 => {
            // wrong primitive at the leaf
            fn swap_leaf(t: &MType) -> MType {
                match t {
                    MType::Array(i) => MType::arr(swap_leaf(i)),
                    MType::Map(i) => MType::map(swap_leaf(i)),
                    MType::Int => MType::Bytes,
                    MType::Bytes => MType::Int,
                    MType::Ip => MType::Bool,
                    MType::Bool => MType::Ip,
                }
            }
            swap_leaf(ty)
        }
        1 => match ty {
            // right shape, wrong depth
            MType::Array(i) | MType::Map(i) => (**i).clone(),
            p => MType::arr(p.clone()),
        },
        _ => match ty {
            // other container kind / one more layer
            MType::Array(i) => MType::map((**i).clone()),
            MType::Map(i) => MType::arr((**i).clone()),
            p => MType::map(p.clone()),
        },
    };
    gen_value(&other, 3)
}

fn type_mismatch(expected: &MType, actual: &MType) -> SetFieldValueError {
    SetFieldValueError::TypeMismatch(TypeMismatchError {
        expected: expected.to_type().into(),
        actual: actual.to_type(),
    })
}

fn check_ctx(w: &World, ctx: &ExecutionContext<'_>, m: &ModelCtx, what: &str) -> Result<(), Violation> {
    let got = wgen::read_back(&w.spec, &w.scheme, ctx);
    if got != *m {
        return Err(v("state-differs", what.to_string(), format!("after {what}: context reads {:?}, model says {:?}", got, m)));
    }
    for (name, ty, _) in &w.spec.fields {
        if let Some(val) = ctx.get_field_value(w.scheme.get_field(name).unwrap()) {
            if !deep_well_typed(val, &ty.to_type()) {
                return Err(v("ill-typed-value-visible", what.to_string(), format!("field {name}: declared {}, holds {}", ty.short(), MValue::from_lhs(val).render())));
            }
        }
    }
    Ok(())
}

fn check_full(w: &World, ctx: &ExecutionContext<'_>, m: &ModelCtx, what: &str) -> Result<(), Violation> {
    check_ctx(w, ctx, m, what)?;
    let fresh = wgen::materialise(&w.spec, &w.scheme, m);
    if *ctx != fresh {
        return Err(v("not-equal-to-rebuilt", what.to_string(), format!("after {what}: context != context rebuilt from the model {:?}", m)));
    }
    let a = exec_probes(&w.spec, &w.scheme, &w.probes, ctx, what).map_err(|e| v("probe", e.signature(), e.detail))?;
    let b = exec_probes(&w.spec, &w.scheme, &w.probes, &fresh, what).map_err(|e| v("probe", e.signature(), e.detail))?;
    if a != b {
        return Err(v("probe-filter-differs", what.to_string(), format!("filters {:?}: {:?} on the context, {:?} on the rebuilt one", w.probes.texts, a, b)));
    }
    Ok(())
}

/// Build a container value through a tape-chosen public constructor from a (possibly mixed) pool.
fn op_build(_w: &World) -> Result<(), Violation> {
    let elem_ty = gen_type(2);
    let n = range(0, 4, "build.n");
    let mut elems: Vec<MValue> = Vec::new();
    let mut all_ok = true;
    for _ in 0..n {
        if chance(1, 4, "build.bad") {
            elems.push(ill_typed(&elem_ty));
            all_ok = false;
        } else {
            elems.push(gen_value(&elem_ty, 2));
        }
    }
    let first_bad = elems.iter().position(|e| e.mtype() != elem_ty);
    let lhs: Vec<LhsValue<'static>> = elems.iter().map(|e| e.to_lhs().expect("pool values are well-formed")).collect();
    let ctor = choose(3, "build.ctor");
    let class = ["Array::try_from_iter", "Array::try_from_vec", "Map::try_from_iter"][ctor];
    let res: Result<LhsValue<'static>, TypeMismatchError> = match ctor {
        0 => Array::try_from_iter(elem_ty.to_type(), lhs.clone()).map(LhsValue::Array),
        1 => Array::try_from_vec(elem_ty.to_type(), lhs.clone()).map(LhsValue::Array),
        _ => {
            // keys may repeat: a later value for the same key is checked like any other
            let modulo = if chance(1, 2, "build.dup_keys") { 2 } else { 1000 };
            Map::try_from_iter::<TypeMismatchError, _>(elem_ty.to_type(), lhs.clone().into_iter().enumerate().map(|(i, e)| Ok((format!("k{}", i % modulo).into_bytes().into_boxed_slice(), e)))).map(LhsValue::Map)
        }
    };
    crate::tr!("  build {class}<{}> from {:?} -> {}", elem_ty.short(), elems.iter().map(|e| e.mtype().short()).collect::<Vec<_>>(), if res.is_ok() { "Ok" } else { "Err" });
    match (res, all_ok) {
        (Ok(val), true) => {
            kernel::count("op.build_ok");
            let want_ty = if ctor == 2 { MType::map(elem_ty.clone()) } else { MType::arr(elem_ty.clone()) };
            if !deep_well_typed(&val, &want_ty.to_type()) || val.get_type() != want_ty.to_type() {
                return Err(v("constructor-built-ill-typed", class, format!("result type {:?}", val.get_type())));
            }
            Ok(())
        }
        (Err(e), false) => {
            kernel::count("op.build_rejected");
            let bad = &elems[first_bad.unwrap()];
            let want = TypeMismatchError {
                expected: elem_ty.to_type().into(),
                actual: bad.mtype().to_type(),
            };
            if e != want {
                return Err(v("constructor-wrong-error", class, format!("{e:?} instead of {want:?}")));
            }
            Ok(())
        }
        (Ok(val), false) => Err(v(
            "heterogeneous-container-built",
            class,
            format!("{class}<{}> accepted elements of types {:?}: {}", elem_ty.short(), elems.iter().map(|e| e.mtype().short()).collect::<Vec<_>>(), MValue::from_lhs(&val).render()),
        )),
        (Err(e), true) => Err(v("homogeneous-container-rejected", class, format!("{e}"))),
    }
}

/// An element whose own type uses every layer the packed form has (a 33-level nested empty array): offered to a
/// container of a shallow element type it must never be accepted (an error or an unwind both count as refusal).
fn op_build_deep_element() -> Result<(), Violation> {
    let mut deep: LhsValue<'static> = LhsValue::Array(Array::new(Type::Bytes));
    for _ in 0..32 {
        let ty = deep.get_type();
        let Ok(t) = catch_unwind(AssertUnwindSafe(|| Array::try_from_iter(ty, vec![deep.clone()]))) else { return Ok(()) };
        match t {
            Ok(a) => deep = LhsValue::Array(a),
            Err(_) => return Ok(()),
        }
    }
    kernel::count("op.build_deep_element");
    let elem = [Type::Bytes, Type::Int, Type::Array(Type::Bytes.into())][choose(3, "deep.elem")];
    let ctor = choose(3, "deep.ctor");
    let class = ["Array::try_from_iter", "Array::try_from_vec", "Map::try_from_iter"][ctor];
    let d = deep.clone();
    let r = catch_unwind(AssertUnwindSafe(move || match ctor {
        0 => Array::try_from_iter(elem, vec![d]).map(LhsValue::Array),
        1 => Array::try_from_vec(elem, vec![d]).map(LhsValue::Array),
        _ => Map::try_from_iter::<TypeMismatchError, _>(elem, vec![Ok((b"k".to_vec().into_boxed_slice(), d))]).map(LhsValue::Map),
    }));
    match r {
        Ok(Ok(val)) => Err(v("heterogeneous-container-built", format!("{class}/deep-element"), format!("a 33-level nested array was accepted as an element of a container of {:?}: {:?}", elem, val.get_type()))),
        _ => Ok(()),
    }
}

fn typed_wrappers() -> Result<(), Violation> {
    let mut a: TypedArray<'static, i64> = TypedArray::new();
    a.push(1);
    a.extend([2i64, 3]);
    let arr: Array<'static> = a.into();
    if arr.get_type() != Type::Array(Type::Int.into()) || arr.len() != 3 {
        return Err(v("typed-wrapper", "TypedArray<i64>", format!("{:?}", arr.get_type())));
    }
    let mut m: TypedMap<'static, TypedArray<'static, &'static [u8]>> = TypedMap::new();
    m.get_or_insert(b"k".to_vec().into_boxed_slice(), TypedArray::new()).push(&b"v"[..]);
    let map: Map<'static> = m.into();
    let want = Type::Map(Type::Array(Type::Bytes.into()).into());
    if map.get_type() != want || !deep_well_typed(&LhsValue::Map(map), &want) {
        return Err(v("typed-wrapper", "TypedMap<TypedArray<bytes>>", "wrong type".to_string()));
    }
    Ok(())
}

/// A value whose conversion into an `LhsValue` panics (S5: user code running inside a context operation).
struct BoomValue;

impl From<BoomValue> for LhsValue<'static> {
    fn from(_: BoomValue) -> Self {
        panic!("{}:into-lhs-value", seams::INJECTED)
    }
}

#[derive(Default)]
struct Tally {
    fails: u32,
    writes: u32,
    faults: u32,
}

/// Apply `n` tape-chosen operations to (ctx, model). Used on the main thread and inside tasks.
fn apply_ops(w: &World, mut ctx: ExecutionContext<'static>, mut m: ModelCtx, n: usize, tally: &mut Tally, allow_heavy: bool) -> Result<(ExecutionContext<'static>, ModelCtx), Violation> {
    let nf = w.spec.fields.len();
    for _ in 0..n {
        kernel::point("c08.op");
        if kernel::failed() {
            break;
        }
        let op = choose_w(&[8, 5, 3, 1, 2, 3, 1, 2, if allow_heavy { 3 } else { 0 }, 3, 2, 2, 1], "op");
        match op {
            // ---- set by field / by name
            0 | 1 => {
                let by_name = op == 1;
                let fi = choose(nf, "set.field");
                let (name, ty, _) = &w.spec.fields[fi];
                let bad = chance(1, 3, "set.bad");
                let unknown = by_name && chance(1, 6, "set.unknown");
                let val = if bad { ill_typed(ty) } else { gen_value(ty, 3) };
                let lhs = val.to_lhs().expect("well-formed");
                let before = m.clone();
                let res = if by_name {
                    let n = if unknown { format!("{name}.nope") } else { name.clone() };
                    ctx.set_field_value_from_name(&n, lhs)
                } else {
                    ctx.set_field_value(w.scheme.get_field(name).unwrap(), lhs)
                };
                let res = res.map(|old| old.map(|o| MValue::from_lhs(&o)));
                let want: Result<Option<MValue>, SetFieldValueError> = if unknown {
                    Err(SetFieldValueError::UnknownField(UnknownFieldError))
                } else if val.mtype() != *ty {
                    Err(type_mismatch(ty, &val.mtype()))
                } else {
                    Ok(m.values[fi].clone())
                };
                crate::tr!("  set{} {name} = {} -> {:?}", if by_name { "_by_name" } else { "" }, val.render(), res.as_ref().map(|_| "Ok").map_err(|e| e.to_string()));
                // the statement fixes whether a write succeeds and what a successful write returns; which error a
                // refused write carries (and what the error says about types) it leaves open
                let same = match (&res, &want) {
                    (Ok(a), Ok(b)) => a == b,
                    (Err(_), Err(_)) => true,
                    _ => false,
                };
                if res != want && same {
                    kernel::count("op.set_error_detail_differs");
                }
                if !same {
                    return Err(v(
                        "set-result-differs",
                        match &want {
                            Ok(_) => "ok",
                            Err(SetFieldValueError::TypeMismatch(_)) => "type-mismatch",
                            Err(SetFieldValueError::UnknownField(_)) => "unknown-field",
                            Err(_) => "other",
                        },
                        format!("field {name}: {} (declared {}): got {:?}, model says {:?}", val.render(), ty.short(), res, want),
                    ));
                }
                match &want {
                    Ok(_) => {
                        m.values[fi] = Some(val);
                        kernel::count("op.set_ok");
                        tally.writes += 1;
                    }
                    Err(SetFieldValueError::UnknownField(_)) => {
                        kernel::count("op.set_unknown");
                        tally.fails += 1;
                    }
                    Err(_) => {
                        kernel::count("op.set_type_mismatch");
                        tally.fails += 1;
                    }
                }
                if want.is_err() && m != before {
                    unreachable!();
                }
                check_ctx(w, &ctx, &m, "set")?;
            }
            // ---- a long run of refused writes must leave no trace
            2 if chance(1, 40, "fail_burst") => {
                let fi = choose(nf, "burst.field");
                let (name, ty, _) = &w.spec.fields[fi];
                let n = [40usize, 130, 300][choose(3, "burst.n")];
                let bad = ill_typed(ty);
                for _ in 0..n {
                    if ctx.set_field_value(w.scheme.get_field(name).unwrap(), bad.to_lhs().unwrap()).is_ok() {
                        return Err(v("set-result-differs", "type-mismatch", format!("field {name}: ill-typed value accepted during a burst")));
                    }
                    let _ = ctx.set_field_value(w.twin.get_field(name).unwrap(), bad.to_lhs().unwrap());
                }
                kernel::count("op.fail_burst");
                tally.fails += 1;
                check_ctx(w, &ctx, &m, "fail-burst")?;
            }
            // ---- get (sometimes preceded by a set whose value conversion unwinds: nothing may change)
            2 => {
                if chance(1, 4, "get.boom_set") {
                    let fi = choose(nf, "boom.field");
                    let name = &w.spec.fields[fi].0;
                    let by_name = chance(1, 2, "boom.by_name");
                    let r = catch_unwind(AssertUnwindSafe(|| {
                        if by_name {
                            ctx.set_field_value_from_name(name, BoomValue).map(|_| ())
                        } else {
                            ctx.set_field_value(w.scheme.get_field(name).unwrap(), BoomValue).map(|_| ())
                        }
                    }));
                    kernel::count("unwind.into_value");
                    tally.faults += 1;
                    crate::tr!("  set {name} with a value whose Into<LhsValue> panics -> {}", if r.is_err() { "unwound" } else { "returned" });
                    if r.is_ok() {
                        return Err(v("closure-panic-swallowed", "into-lhs-value", "".to_string()));
                    }
                    check_ctx(w, &ctx, &m, "set-conversion-unwound")?;
                }
                let fi = choose(nf, "get.field");
                let got = ctx.get_field_value(w.scheme.get_field(&w.spec.fields[fi].0).unwrap()).map(MValue::from_lhs);
                if got != m.values[fi] {
                    return Err(v("get-differs", "", format!("field {}: {:?} vs model {:?}", w.spec.fields[fi].0, got, m.values[fi])));
                }
            }
            // ---- clear (maybe with a panicking matcher)
            3 => {
                let arm = !w.spec.lists.is_empty() && w.spec.lists.iter().any(|l| l.1 == ListKind::Set) && chance(1, 3, "clear.fault");
                if arm {
                    seams::arm_panic("list.clear", 1 + choose(2, "clear.nth") as u32);
                }
                let r = catch_unwind(AssertUnwindSafe(|| ctx.clear()));
                seams::disarm_all();
                crate::tr!("  clear -> {}", if r.is_ok() { "ok" } else { "unwound" });
                kernel::count("op.clear");
                match r {
                    Ok(()) => m.clear(),
                    Err(_) => {
                        // unwound in the middle: every slot holds its old or its new (empty) value
                        kernel::count("unwind.clear");
                        tally.faults += 1;
                        let got = wgen::read_back(&w.spec, &w.scheme, &ctx);
                        for (i, val) in got.values.iter().enumerate() {
                            if val.is_some() && *val != m.values[i] {
                                return Err(v("garbage-after-unwind", "clear", format!("field {i}")));
                            }
                        }
                        for (i, l) in got.lists.iter().enumerate() {
                            if let Some(l) = l {
                                if !l.is_empty() && Some(l) != m.lists[i].as_ref() {
                                    return Err(v("garbage-after-unwind", "clear", format!("list {i}")));
                                }
                            }
                        }
                        m = got;
                    }
                }
                check_ctx(w, &ctx, &m, "clear")?;
            }
            // ---- clone_with: independent copies (maybe with a panicking matcher clone)
            4 => {
                let arm = w.spec.lists.iter().any(|l| l.1 == ListKind::Set) && chance(1, 3, "clone.fault");
                if arm {
                    seams::arm_panic("list.clone", 1);
                }
                let r = catch_unwind(AssertUnwindSafe(|| ctx.clone_with(())));
                seams::disarm_all();
                kernel::count("op.clone");
                match r {
                    Err(_) => {
                        kernel::count("unwind.clone");
                        tally.faults += 1;
                        crate::tr!("  clone_with unwound (matcher clone panicked)");
                        check_ctx(w, &ctx, &m, "clone-unwound")?;
                    }
                    Ok(mut clone) => {
                        crate::tr!("  clone_with: write to the clone, original must not move");
                        if clone != ctx {
                            return Err(v("clone-not-equal", "", "clone != original".to_string()));
                        }
                        // write to the clone only
                        let fi = choose(nf, "clone.field");
                        let (name, ty, _) = &w.spec.fields[fi];
                        let val = gen_value(ty, 2);
                        clone.set_field_value(w.scheme.get_field(name).unwrap(), val.to_lhs().unwrap()).map_err(|e| v("set-failed", "", e.to_string()))?;
                        check_ctx(w, &ctx, &m, "clone-independence")?;
                        let mut mc = m.clone();
                        mc.values[fi] = Some(val);
                        check_ctx(w, &clone, &mc, "clone-write")?;
                        if chance(1, 2, "clone.continue_on_clone") {
                            ctx = clone;
                            m = mc;
                        }
                    }
                }
            }
            // ---- borrow_with: writes go through; Drop restores, also during unwinding
            5 => {
                kernel::count("op.borrow");
                let nwrites = range(0, 2, "bor.writes");
                let mut writes = Vec::new();
                for _ in 0..nwrites {
                    let fi = choose(nf, "bor.field");
                    writes.push((fi, gen_value(&w.spec.fields[fi].1, 2)));
                }
                let unwind = w.boom_filter.is_some() && m.values.iter().zip(&w.spec.fields).all(|(val, f)| f.2 || val.is_some()) && chance(1, 2, "bor.unwind");
                let r = catch_unwind(AssertUnwindSafe(|| {
                    let mut guard = ctx.borrow_with(());
                    for (fi, val) in &writes {
                        guard.set_field_value(w.scheme.get_field(&w.spec.fields[*fi].0).unwrap(), val.to_lhs().unwrap()).expect("well-typed write through the guard");
                    }
                    if unwind {
                        seams::arm_panic("fn.boom", 1);
                        let _ = w.boom_filter.as_ref().unwrap().execute(&guard);
                    }
                }));
                seams::disarm_all();
                for (fi, val) in writes {
                    m.values[fi] = Some(val);
                    tally.writes += 1;
                }
                if r.is_err() {
                    kernel::count("unwind.guard");
                    tally.faults += 1;
                }
                crate::tr!("  borrow_with: {nwrites} writes through the guard, {}", if r.is_err() { "callback panicked while the guard was alive" } else { "guard dropped normally" });
                tally.faults += 1;
                check_ctx(w, &ctx, &m, if r.is_err() { "guard-unwound" } else { "guard-dropped" })?;
            }
            // ---- take_with / new_with (maybe panicking closures)
            6 => {
                kernel::count("op.take");
                if chance(1, 3, "take.fault") {
                    let r = catch_unwind(AssertUnwindSafe(|| ctx.take_with(|()| -> () { panic!("{}:take_with", seams::INJECTED) })));
                    kernel::count("unwind.closure");
                    tally.faults += 1;
                    if r.is_ok() {
                        return Err(v("closure-panic-swallowed", "take_with", "".to_string()));
                    }
                    // the context was consumed by the call: start again from an empty one
                    let r2 = catch_unwind(AssertUnwindSafe(|| ExecutionContext::<()>::new_with(&w.scheme, || panic!("{}:new_with", seams::INJECTED))));
                    if r2.is_ok() {
                        return Err(v("closure-panic-swallowed", "new_with", "".to_string()));
                    }
                    ctx = ExecutionContext::new(&w.scheme);
                    m = ModelCtx::new(nf, &w.spec.list_is_set());
                } else {
                    let taken: ExecutionContext<'static, u8> = ctx.take_with(|()| 7u8);
                    if *taken.get_user_data() != 7 {
                        return Err(v("take-with", "user-data", "".to_string()));
                    }
                    ctx = taken.take_with(|_| ());
                }
                crate::tr!("  take_with");
                check_ctx(w, &ctx, &m, "take_with")?;
            }
            // ---- build containers through the public constructors
            7 => {
                op_build(w)?;
                typed_wrappers()?;
                if chance(1, 6, "build.deep") {
                    op_build_deep_element()?;
                }
            }
            // ---- deserialise a document into the context through a faulty transport
            8 => {
                let other = wgen::gen_model_ctx(&w.spec, 3, true);
                let src = wgen::materialise(&w.spec, &w.scheme, &other);
                let doc: &'static [u8] = Box::leak(serde_json::to_vec(&src).unwrap().into_boxed_slice());
                let mut consumer = gen_consumer();
                if consumer == Consumer::Serde(seams::Entry::Value) && !w.spec.lists.is_empty() {
                    consumer = Consumer::Serde(seams::Entry::Reader); // known finding of C14, not this property's subject
                }
                let stream = matches!(consumer, Consumer::Serde(e) if e.is_stream());
                let plan = if stream { gen_read_plan(doc.len(), true) } else { ReadPlan::clean() };
                let mut st = IoStats::default();
                // SAFETY of lifetimes: the document is leaked, so it outlives any 'e
                let r = deliver_ctx(&mut ctx, consumer, doc, &plan, &mut st);
                kernel::count("op.deser");
                crate::tr!("  deserialise {}B via {:?} plan={plan:?} -> {r:?}", doc.len(), consumer);
                match r {
                    Err(p) => return Err(v("deserialize-panicked", "", p)),
                    Ok(Ok(())) => {
                        if st.hard {
                            return Err(v("hard-fault-accepted", "", format!("{plan:?}")));
                        }
                        for (i, val) in other.values.iter().enumerate() {
                            if val.is_some() {
                                m.values[i] = val.clone();
                                tally.writes += 1;
                            }
                        }
                        for (i, l) in other.lists.iter().enumerate() {
                            if l.is_some() {
                                m.lists[i] = l.clone();
                            }
                        }
                    }
                    Ok(Err(e)) => {
                        if !st.hard {
                            return Err(v("valid-document-rejected", "", e));
                        }
                        tally.faults += 1;
                        // A cut stream may deliver a *prefix* of a number (`{"a":345` cut after `3` stores 3 before the
                        // error surfaces), so "old or new value" would be too strict: the property only promises that
                        // nothing ill-typed is stored. The model is re-synchronised from reads; check_ctx below asserts
                        // deep well-typedness of every slot. List state is replaced atomically per list: old or new.
                        let got = wgen::read_back(&w.spec, &w.scheme, &ctx);
                        for (i, l) in got.lists.iter().enumerate() {
                            if *l != m.lists[i] && *l != other.lists[i] {
                                return Err(v("garbage-after-transport-fault", "list", format!("list {i}")));
                            }
                        }
                        m = got;
                    }
                }
                check_ctx(w, &ctx, &m, "deserialise")?;
            }
            // ---- execute probes (full comparison with a context rebuilt from the model)
            9 => check_full(w, &ctx, &m, "execute")?,
            // ---- set through the twin scheme's handle
            10 => {
                let fi = choose(nf, "twin.field");
                let (name, ty, _) = &w.spec.fields[fi];
                let val = gen_value(ty, 2);
                let res = ctx.set_field_value(w.twin.get_field(name).unwrap(), val.to_lhs().unwrap());
                kernel::count("op.set_twin");
                tally.fails += 1;
                crate::tr!("  set through the twin scheme's handle -> {:?}", res.as_ref().map(|_| "Ok"));
                if res != Err(SetFieldValueError::SchemeMismatch(SchemeMismatchError)) {
                    return Err(v("foreign-field-accepted", "", format!("setting {name} through a structurally identical but distinct scheme's handle gave {res:?}")));
                }
                check_ctx(w, &ctx, &m, "twin-set")?;
            }
            // ---- execute a filter / value expression parsed with the twin scheme: error, never an evaluation
            11 => {
                kernel::count("op.exec_twin");
                tally.fails += 1;
                let calls_before = seams::fn_calls();
                seams::harness(|h| h.calls.clear());
                for (t, f) in w.twin_probes.texts.iter().zip(&w.twin_probes.filters) {
                    match catch_unwind(AssertUnwindSafe(|| f.execute(&ctx))) {
                        Ok(Err(SchemeMismatchError)) => {}
                        Ok(Ok(b)) => return Err(v("foreign-filter-evaluated", "filter", format!("`{t}` parsed with another scheme evaluated to {b}"))),
                        Err(p) => return Err(v("foreign-filter-evaluated", "panic", format!("`{t}`: {}", kernel::panic_message(&*p)))),
                    }
                }
                if seams::fn_calls() != calls_before || seams::harness(|h| !h.calls.is_empty()) {
                    return Err(v("foreign-filter-evaluated", "side-effect", "user callbacks ran although the schemes do not match".to_string()));
                }
                if let Some(text) = wgen::gen_value_expr(&w.spec) {
                    if let Ok(ast) = w.twin.parse_value(&text) {
                        let fv = ast.compile();
                        if fv.execute(&ctx).is_ok() {
                            return Err(v("foreign-filter-evaluated", "value-expr", format!("`{text}`")));
                        }
                    }
                }
            }
            // ---- value expressions vs the model-built context
            _ => {
                if let Some(text) = wgen::gen_value_expr(&w.spec) {
                    if let Ok(ast) = w.scheme.parse_value(&text) {
                        let ok = w.spec.fields.iter().zip(&m.values).all(|(f, val)| f.2 || val.is_some());
                        if ok {
                            let fv = ast.compile();
                            let fresh = wgen::materialise(&w.spec, &w.scheme, &m);
                            let a = catch_unwind(AssertUnwindSafe(|| fv.execute(&ctx).map(|r| r.map(|x| MValue::from_lhs(&x)).map_err(|t| format!("{t:?}")))));
                            let b = catch_unwind(AssertUnwindSafe(|| fv.execute(&fresh).map(|r| r.map(|x| MValue::from_lhs(&x)).map_err(|t| format!("{t:?}")))));
                            match (a, b) {
                                (Ok(a), Ok(b)) if a == b => {}
                                (Ok(a), Ok(b)) => return Err(v("value-expr-differs", "", format!("`{text}`: {a:?} vs {b:?}"))),
                                _ => return Err(v("value-expr-panicked", "", format!("`{text}`"))),
                            }
                        }
                    }
                }
            }
        }
    }
    Ok((ctx, m))
}

fn run(ctx: &RunCtx) -> Result<(), Violation> {
    seams::reset(ctx.run);
    let _scenario = choose(1, "scenario");
    let spec = wgen::gen_scheme(&[8, 4, 6, 6, 0, 0, 2, 1, 4], chance(1, 2, "with_lists"), false);
    let scheme = spec.build();
    let twin = spec.build();
    for sch in [&scheme, &twin] {
        spec.verify_shape(sch).map_err(|e| v("scheme-shape", "", e))?;
    }
    let seed_model = wgen::gen_model_ctx(&spec, 3, false);
    let probes = gen_probes(&spec, &scheme, &[&seed_model], 4);
    // the same texts parsed with the twin
    let mut twin_probes = Probes { texts: Vec::new(), filters: Vec::new() };
    for t in &probes.texts {
        if let Ok(a) = twin.parse(t) {
            twin_probes.texts.push(t.clone());
            twin_probes.filters.push(a.compile());
        }
    }
    let boom_filter = spec.functions.contains(&"boom").then(|| {
        let f = spec.fields.iter().find(|(_, t, _)| *t == MType::Bytes).map(|f| f.0.clone());
        f.and_then(|f| scheme.parse(&format!("boom({f}) == \"zz\" or boom({f}) != \"zz\"")).ok()).map(|a| a.compile())
    }).flatten();
    let w = std::sync::Arc::new(World { spec, scheme, twin, probes, twin_probes, boom_filter });

    let max_ops = if ctx.tier == Tier::Thorough { 40 } else { 12 };
    let nops = range(2, max_ops, "nops");
    let start_populated = chance(1, 2, "start_populated");
    let (real, model) = if start_populated {
        (wgen::materialise(&w.spec, &w.scheme, &seed_model), seed_model.clone())
    } else {
        (ExecutionContext::new(&w.scheme), ModelCtx::new(w.spec.fields.len(), &w.spec.list_is_set()))
    };
    let mut tally = Tally::default();
    let (real, model) = apply_ops(&w, real, model, nops, &mut tally, true)?;
    check_full(&w, &real, &model, "history-end")?;

    // ---- two-task phase: original and clone continue independently under the scheduler
    if chance(1, 4, "two_tasks") {
        kernel::count("probe.two_tasks");
        let clone = real.clone_with(());
        let results = std::sync::Arc::new(std::sync::Mutex::new(Vec::new()));
        let mut fns: Vec<kernel::TaskFn> = Vec::new();
        for (t, (c, m)) in [(real, model.clone()), (clone, model.clone())].into_iter().enumerate() {
            let w = w.clone();
            let results = results.clone();
            let k = range(1, 5, "task.nops");
            fns.push(Box::new(move || {
                let mut tally = Tally::default();
                match apply_ops(&w, c, m, k, &mut tally, false) {
                    Ok((c, m)) => {
                        if let Err(e) = check_full(&w, &c, &m, "task-end") {
                            kernel::fail(e);
                        }
                        results.lock().unwrap().push((t, tally.writes));
                    }
                    Err(e) => kernel::fail(e),
                }
            }));
        }
        for (i, r) in kernel::run_tasks(fns).into_iter().enumerate() {
            if let Err(p) = r {
                return Err(v("task-died", seams::panic_class(&p), format!("task {i}: {p}")));
            }
        }
    }
    if tally.fails > 0 && tally.writes > 0 && tally.faults > 0 {
        kernel::set_nontrivial();
    }
    if ctx.want_sample {
        let s = w.spec.describe();
        let texts = w.probes.texts.clone();
        kernel::set_sample(move || serde_json::json!({"kind": "context-history", "scheme": s, "probe_filters": texts, "ops": nops, "failing_ops": tally.fails, "writes": tally.writes, "faults_or_guards": tally.faults}));
    }
    Ok(())
}
