//! Workload generators: scheme family, contexts, filter text. All choices go through the tape.

use crate::kernel::{chance, choose, choose_w, range};
use crate::model::{MType, MValue, ModelCtx, SetVal, gen_value};
use crate::seams::{self, SetListDef, SetMatcher};
use wirefilter::{AlwaysList, ExecutionContext, NeverList, Scheme, SchemeBuilder};

#[derive(Clone, Copy, Debug, PartialEq, Eq)]
pub enum ListKind {
    Set,
    Always,
    Never,
}

#[derive(Clone, Debug)]
pub struct SchemeSpec {
    pub family: &'static str,
    pub fields: Vec<(String, MType, bool)>,
    pub functions: Vec<&'static str>,
    pub lists: Vec<(MType, ListKind)>,
    pub nil_ne: bool,
}

impl SchemeSpec {
    pub fn builder(&self) -> SchemeBuilder {
        // both public ways of starting a builder (the C API's is `Default`); a function of the spec's size would make
        // twins agree, but twins that start differently are exactly what identity must tell apart, so it is a tape choice
        let mut b = if chance(1, 2, "scheme.builder_default") { SchemeBuilder::default() } else { SchemeBuilder::new() };
        for (name, ty, optional) in &self.fields {
            if *optional {
                b.add_optional_field(name, ty.to_type()).expect("field");
            } else {
                b.add_field(name, ty.to_type()).expect("field");
            }
        }
        self.refused_registrations(&mut b);
        for f in &self.functions {
            if *f == "concat" {
                b.add_function("concat", wirefilter::ConcatFunction::new()).expect("function");
            } else {
                b.add_function(*f, seams::HookedFn(seams::function_def(f))).expect("function");
            }
        }
        for (i, (ty, kind)) in self.lists.iter().enumerate() {
            match kind {
                ListKind::Set => b.add_list(ty.to_type(), SetListDef { ty: ty.clone() }).expect("list"),
                ListKind::Always => b.add_list(ty.to_type(), AlwaysList {}).expect("list"),
                ListKind::Never => b.add_list(ty.to_type(), NeverList {}).expect("list"),
            }
            // a refused duplicate registration (part of real builder histories) must leave the builder as it was;
            // which lists get one is a function of the spec, so a twin scheme gets the same ones
            if (i + self.fields.len() + self.lists.len()) % 3 == 0 {
                if b.add_list(ty.to_type(), NeverList {}).is_ok() {
                    panic!("a second list for {:?} was accepted", ty);
                }
                // and the same for a field
                if let Some((name, fty, _)) = self.fields.first() {
                    if b.add_field(name, fty.to_type()).is_ok() {
                        panic!("a second field named {name} was accepted");
                    }
                }
            }
        }
        self.refused_registrations(&mut b);
        b.set_nil_not_equal_behavior(self.nil_ne);
        b
    }

    /// Real builder histories contain refused registrations (the C API just returns false and carries on): a name that
    /// is taken, offered again as a field of another type, as an optional field, or as a function. Each must be
    /// refused and must leave the builder exactly as it was (`verify_shape` and every later use of the scheme say so).
    fn refused_registrations(&self, b: &mut SchemeBuilder) {
        if !chance(1, 4, "builder.refused") {
            return;
        }
        let mut names: Vec<&str> = self.fields.iter().map(|f| f.0.as_str()).collect();
        names.extend(self.functions.iter().copied());
        for _ in 0..range(1, 3, "builder.refused_n") {
            if names.is_empty() {
                return;
            }
            // (functions registered later are not taken yet at the first call site; then the offer is simply accepted
            // as a field and refused as a function afterwards - avoid that by only offering names of fields there)
            let name = names[choose(names.len(), "builder.refused_name")];
            let taken = self.fields.iter().any(|f| f.0 == name);
            if !taken {
                continue;
            }
            let ty = [MType::Int, MType::Bytes, MType::arr(MType::Bytes), MType::map(MType::Int), MType::Bool][choose(5, "builder.refused_ty")].clone();
            let refused = match choose(3, "builder.refused_kind") {
                0 => b.add_field(name, ty.to_type()).is_err(),
                1 => b.add_optional_field(name, ty.to_type()).is_err(),
                _ => b.add_function(name, seams::HookedFn(seams::function_def("echo"))).is_err(),
            };
            if !refused {
                panic!("a second registration of the name {name:?} was accepted");
            }
            crate::kernel::count("builder.refused");
        }
    }

    /// The built scheme enumerates exactly the registered fields, functions and lists, in registration order, and
    /// every by-name lookup lands on the same entry.
    pub fn verify_shape(&self, scheme: &Scheme) -> Result<(), String> {
        use wirefilter::GetType;
        if scheme.field_count() != self.fields.len() || scheme.fields().len() != self.fields.len() {
            return Err(format!("{} fields registered, the scheme counts {} and enumerates {}", self.fields.len(), scheme.field_count(), scheme.fields().len()));
        }
        for (i, (f, (name, ty, optional))) in scheme.fields().zip(self.fields.iter()).enumerate() {
            if f.name() != name || f.get_type() != ty.to_type() || f.optional() != *optional || f.index() != i {
                return Err(format!("field #{i}: registered {name:?}: {} optional={optional}, enumerated {:?}: {:?} optional={} index {}", ty.short(), f.name(), f.get_type(), f.optional(), f.index()));
            }
            match scheme.get_field(name) {
                Ok(g) if g == f => {}
                other => return Err(format!("field #{i} {name:?}: lookup by name gives {other:?}")),
            }
        }
        if scheme.function_count() != self.functions.len() {
            return Err(format!("{} functions registered, the scheme counts {}", self.functions.len(), scheme.function_count()));
        }
        for name in &self.functions {
            if scheme.get_function(name).is_err() {
                return Err(format!("function {name:?} cannot be looked up"));
            }
        }
        if scheme.list_count() != self.lists.len() || scheme.lists().len() != self.lists.len() {
            return Err(format!("{} lists registered, the scheme counts {}", self.lists.len(), scheme.list_count()));
        }
        for (i, (l, (ty, _))) in scheme.lists().zip(self.lists.iter()).enumerate() {
            if l.get_type() != ty.to_type() || scheme.get_list(&ty.to_type()) != Some(l) {
                return Err(format!("list #{i}: registered for {}, enumerated for {:?}", ty.short(), l.get_type()));
            }
        }
        Ok(())
    }

    pub fn build(&self) -> Scheme {
        self.builder().build()
    }

    pub fn field_index(&self, name: &str) -> Option<usize> {
        self.fields.iter().position(|f| f.0 == name)
    }

    pub fn list_index(&self, ty: &MType) -> Option<usize> {
        self.lists.iter().position(|l| l.0 == *ty)
    }

    pub fn list_is_set(&self) -> Vec<bool> {
        self.lists.iter().map(|l| l.1 == ListKind::Set).collect()
    }

    pub fn describe(&self) -> serde_json::Value {
        serde_json::json!({
            "family": self.family,
            "fields": self.fields.iter().map(|(n, t, o)| format!("{n}:{}{}", t.short(), if *o { "?" } else { "" })).collect::<Vec<_>>(),
            "functions": self.functions,
            "lists": self.lists.iter().map(|(t, k)| format!("{}={:?}", t.short(), k)).collect::<Vec<_>>(),
        })
    }
}

fn f(name: &str, ty: MType, optional: bool) -> (String, MType, bool) {
    (name.to_string(), ty, optional)
}

/// Lists: a tape-chosen registration order over {Int, Ip, Bytes} with Set/Always/Never kinds, plus
/// optionally lists on types that can never be queried (they shift registration indices).
pub fn gen_lists(force_set: bool) -> Vec<(MType, ListKind)> {
    let mut tys = vec![MType::Int, MType::Ip, MType::Bytes];
    // tape-chosen permutation
    for i in (1..tys.len()).rev() {
        let j = choose(i + 1, "lists.perm");
        tys.swap(i, j);
    }
    let mut out = Vec::new();
    if chance(1, 3, "lists.decoy_first") {
        out.push((MType::Bool, ListKind::Never));
    }
    for t in tys {
        let kind = match choose_w(&[6, 1, 1, 1], "lists.kind") {
            0 => Some(ListKind::Set),
            1 => Some(ListKind::Always),
            2 => Some(ListKind::Never),
            _ => None,
        };
        let kind = if force_set && kind.is_none() { Some(ListKind::Set) } else { kind };
        if let Some(k) = kind {
            out.push((t, k));
        }
        if chance(1, 6, "lists.decoy") {
            let d = MType::arr(MType::Bytes);
            if !out.iter().any(|(t, _)| *t == d) {
                out.push((d, ListKind::Set));
            }
        }
    }
    out
}

pub fn scheme_family(which: usize) -> SchemeSpec {
    use MType::*;
    let b = |t: MType| Box::new(t);
    match which {
        // tiny
        0 => SchemeSpec {
            family: "tiny",
            fields: vec![f("a", Int, true), f("b", Bytes, true), f("c", Array(b(Int)), true)],
            functions: vec!["echo", "lower", "len"],
            lists: vec![],
            nil_ne: true,
        },
        // flat: one mandatory + one optional of each primitive
        1 => SchemeSpec {
            family: "flat",
            fields: vec![
                f("port", Int, false),
                f("port_opt", Int, true),
                f("http.host", Bytes, false),
                f("http.ua", Bytes, true),
                f("ip.src", Ip, false),
                f("ip.dst", Ip, true),
                f("ssl", Bool, false),
                f("bot", Bool, true),
            ],
            functions: vec!["echo", "lower", "len", "join", "boom", "idint", "idip", "concat"],
            lists: vec![],
            nil_ne: true,
        },
        // containers
        2 => SchemeSpec {
            family: "containers",
            fields: vec![
                f("arr_b", Array(b(Bytes)), true),
                f("arr_i", Array(b(Int)), true),
                f("bools", Array(b(Bool)), true),
                f("map_b", Map(b(Bytes)), true),
                f("map_arr", Map(b(Array(b(Bytes)))), true),
                f("arr_map", Array(b(Map(b(Int)))), true),
                f("arr_arr", Array(b(Array(b(Bytes)))), true),
                f("map_map", Map(b(Map(b(Ip)))), true),
                f("host", Bytes, true),
            ],
            functions: vec!["echo", "lower", "len", "join", "boom", "concat"],
            lists: vec![],
            nil_ne: true,
        },
        // rich = flat ∪ containers with dotted names
        3 => SchemeSpec {
            family: "rich",
            fields: vec![
                f("tcp.port", Int, true),
                f("http.host", Bytes, true),
                f("http.ua", Bytes, true),
                f("ip.src", Ip, true),
                f("ip.dst", Ip, true),
                f("ssl", Bool, true),
                f("http.cookies", Array(b(Bytes)), true),
                f("http.request.headers", Map(b(Bytes)), true),
                f("http.parts", Array(b(Array(b(Bytes)))), true),
                f("http.hdr_vals", Map(b(Array(b(Bytes)))), true),
                f("ports", Array(b(Int)), true),
                f("ips", Array(b(Ip)), true),
                f("flags", Array(b(Bool)), true),
                f("scores", Map(b(Int)), true),
                f("geo", Map(b(Map(b(Ip)))), true),
                f("deep", Array(b(Map(b(Array(b(Int)))))), true),
                f("mand", Int, false),
            ],
            functions: vec!["echo", "lower", "len", "join", "boom", "idint", "idip", "concat"],
            lists: vec![],
            nil_ne: true,
        },
        // lists_only: zero fields (D6)
        4 => SchemeSpec {
            family: "lists_only",
            fields: vec![],
            functions: vec![],
            lists: vec![],
            nil_ne: true,
        },
        // legal but unusual field names (a scheme accepts any string): JSON keys needing escapes, non-ASCII, `$`-prefixed,
        // empty, long; such fields cannot be named in a filter (generated filters that use them are discarded)
        6 => SchemeSpec {
            family: "weird_names",
            fields: vec![
                f("plain", Bytes, true),
                f("a-b c", Int, true),
                f("é.ü", Bytes, true),
                f("$x", Ip, true),
                f("", Bool, true),
                f("q\"uote\\back", Array(b(Bytes)), true),
                f(&"long.".repeat(40), Map(b(Int)), true),
                f("nl\nname\t", Map(b(Bytes)), true),
                // names the engine knows in another role (an exported function, a keyword, a word of its JSON forms)
                f("concat", Int, true),
                f("in", Bytes, true),
                f("type", Array(b(Int)), true),
            ],
            functions: vec!["echo", "lower"],
            lists: vec![],
            nil_ne: true,
        },
        // wide: more fields than any machine word has bits (per-field bookkeeping must not be packed into one)
        7 => {
            let n = range(65, 140, "scheme.wide_n");
            let tys = [Int, Bytes, Bool, Ip, Array(b(Int)), Map(b(Bytes)), Array(b(Bytes))];
            SchemeSpec {
                family: "wide",
                fields: (0..n).map(|i| f(&format!("w{i}"), tys[i % tys.len()].clone(), true)).collect(),
                functions: vec!["echo"],
                lists: vec![],
                nil_ne: true,
            }
        }
        // every field's type drawn by the tape (any primitive under up to three container layers in any order)
        8 => SchemeSpec {
            family: "random_types",
            fields: (0..range(2, 6, "scheme.rt_n")).map(|i| f(&format!("r{i}"), crate::model::gen_type(3), true)).collect(),
            functions: vec!["echo", "lower", "len"],
            lists: vec![],
            nil_ne: true,
        },
        _ => SchemeSpec {
            family: "all_optional",
            fields: vec![f("x", Int, true), f("y", Bytes, true), f("z", Ip, true), f("w", Bool, true), f("m", Map(b(Bytes)), true)],
            functions: vec!["echo"],
            lists: vec![],
            nil_ne: true,
        },
    }
}

/// Draw a scheme (with lists) from the family. `weights` indexes scheme_family.
pub fn gen_scheme(weights: &[u32], with_lists: bool, force_set: bool) -> SchemeSpec {
    let mut s = scheme_family(choose_w(weights, "scheme.family"));
    if with_lists || s.family == "lists_only" {
        s.lists = gen_lists(force_set || s.family == "lists_only");
    }
    s.nil_ne = !chance(1, 4, "scheme.nil_ne_false");
    s
}

const LIST_NAMES: &[&str] = &["l", "blocked", "a.b", "x_1", "0", "bots.bad"];

pub fn gen_list_name() -> String {
    LIST_NAMES[choose(LIST_NAMES.len(), "list.name")].to_string()
}

/// Populate a model context: each field present with probability ~3/4 (mandatory: always unless
/// `allow_missing_mandatory`), each set-list gets 0..3 named sets.
pub fn gen_model_ctx(spec: &SchemeSpec, size: usize, allow_missing_mandatory: bool) -> ModelCtx {
    let mut m = ModelCtx::new(spec.fields.len(), &spec.list_is_set());
    for (i, (_, ty, optional)) in spec.fields.iter().enumerate() {
        let present = if *optional || allow_missing_mandatory { !chance(1, 4, "ctx.absent") } else { true };
        if present {
            m.values[i] = Some(gen_value(ty, size));
        }
    }
    for (i, (ty, kind)) in spec.lists.iter().enumerate() {
        if *kind != ListKind::Set {
            continue;
        }
        let nsets = choose_w(&[2, 3, 2, 1], "ctx.nsets");
        let st = m.lists[i].as_mut().unwrap();
        for _ in 0..nsets {
            let name = gen_list_name();
            let n = choose_w(&[1, 3, 3, 2], "ctx.setlen");
            let set = st.entry(name).or_default();
            for _ in 0..n {
                match ty {
                    MType::Int | MType::Ip | MType::Bytes => {
                        set.insert(SetVal::from_m(&gen_value(ty, 2)));
                    }
                    _ => {
                        set.insert(SetVal::Other(format!("v{}", choose(4, "ctx.other"))));
                    }
                }
            }
        }
    }
    m
}

/// Materialise a model context as a real one (values through the checked constructors and
/// `set_field_value`, list state through `get_list_matcher_mut(..).as_any_mut()`).
///
/// *How* a context came to hold its values is part of its history and a tape choice: filled directly; filled through
/// a `borrow_with` guard that is then dropped; filled, cleared and filled again; every field first given another
/// well-typed value and then overwritten; filled in a scratch context that is then cloned or taken. Whatever the
/// route, the result must be the same context.
pub fn materialise<'a>(spec: &SchemeSpec, scheme: &Scheme, m: &ModelCtx) -> ExecutionContext<'a> {
    let mut ctx = ExecutionContext::new(scheme);
    match choose_w(&[8, 2, 1, 1, 1, 1], "ctx.route") {
        0 => apply_model(spec, scheme, m, &mut ctx),
        1 => {
            crate::kernel::count("ctx.route.borrow_guard");
            let mut guard = ctx.borrow_with(7u8);
            apply_model(spec, scheme, m, &mut guard);
        }
        2 => {
            crate::kernel::count("ctx.route.refilled_after_clear");
            apply_model(spec, scheme, m, &mut ctx);
            ctx.clear();
            apply_model(spec, scheme, m, &mut ctx);
        }
        3 => {
            crate::kernel::count("ctx.route.overwritten");
            for (i, v) in m.values.iter().enumerate() {
                if v.is_some() {
                    let field = scheme.get_field(&spec.fields[i].0).expect("field");
                    ctx.set_field_value(field, gen_value(&spec.fields[i].1, 2).to_lhs().expect("well-typed")).expect("set well-typed value");
                }
            }
            apply_model(spec, scheme, m, &mut ctx);
        }
        4 => {
            crate::kernel::count("ctx.route.cloned");
            let mut scratch = ExecutionContext::<u8>::new_with(scheme, || 3u8);
            apply_model(spec, scheme, m, &mut scratch);
            ctx = scratch.clone_with(());
        }
        _ => {
            crate::kernel::count("ctx.route.taken");
            let mut scratch = ExecutionContext::<u8>::new_with(scheme, || 3u8);
            apply_model(spec, scheme, m, &mut scratch);
            ctx = scratch.take_with(|_| ());
        }
    }
    ctx
}

pub fn apply_model<U>(spec: &SchemeSpec, scheme: &Scheme, m: &ModelCtx, ctx: &mut ExecutionContext<'_, U>) {
    for (i, v) in m.values.iter().enumerate() {
        if let Some(v) = v {
            let field = scheme.get_field(&spec.fields[i].0).expect("field");
            ctx.set_field_value(field, v.to_lhs().expect("well-typed model value"))
                .expect("set well-typed value");
        }
    }
    for (i, st) in m.lists.iter().enumerate() {
        if let Some(st) = st {
            let list = scheme.get_list(&spec.lists[i].0.to_type()).expect("list");
            let matcher = ctx.get_list_matcher_mut(list);
            let sm = matcher
                .as_any_mut()
                .downcast_mut::<SetMatcher>()
                .expect("SetMatcher");
            sm.sets = st.clone();
        }
    }
}

/// Read a real context back into a model (structural).
pub fn read_back(spec: &SchemeSpec, scheme: &Scheme, ctx: &ExecutionContext<'_>) -> ModelCtx {
    let mut m = ModelCtx::new(spec.fields.len(), &spec.list_is_set());
    for (i, (name, _, _)) in spec.fields.iter().enumerate() {
        let field = scheme.get_field(name).expect("field");
        m.values[i] = ctx.get_field_value(field).map(MValue::from_lhs);
    }
    for (i, (ty, kind)) in spec.lists.iter().enumerate() {
        if *kind == ListKind::Set {
            let list = scheme.get_list(&ty.to_type()).expect("list");
            let matcher = ctx.get_list_matcher(list);
            m.lists[i] = matcher.as_any().downcast_ref::<SetMatcher>().map(|sm| sm.sets.clone());
        }
    }
    m
}

// ------------------------------------------------------------------ filter text generation

fn bytes_literal(b: &[u8]) -> String {
    // quoted string with escapes when printable ASCII, otherwise colon-separated hex (only valid for len >= 2 .. use \x escapes)
    let mut s = String::from("\"");
    for &c in b {
        match c {
            b'"' => s.push_str("\\\""),
            b'\\' => s.push_str("\\\\"),
            0x20..=0x7e => s.push(c as char),
            _ => s.push_str(&format!("\\x{c:02x}")),
        }
    }
    s.push('"');
    s
}

fn literal_for(ty: &MType, pool: &[MValue]) -> String {
    // half from the pool of values present in the run's contexts, half fresh
    let from_pool: Vec<&MValue> = pool.iter().filter(|v| v.mtype() == *ty).collect();
    let v = if !from_pool.is_empty() && chance(1, 2, "lit.pool") {
        from_pool[choose(from_pool.len(), "lit.pick")].clone()
    } else {
        gen_value(ty, 2)
    };
    match v {
        MValue::Int(i) => format!("{i}"),
        MValue::Ip(ip) => format!("{ip}"),
        MValue::Bytes(b) => bytes_literal(&b),
        _ => "0".into(),
    }
}

/// Collect scalar leaves of the given values (for literal pools).
pub fn leaves(v: &MValue, out: &mut Vec<MValue>) {
    match v {
        MValue::Array(_, e) => e.iter().for_each(|x| leaves(x, out)),
        MValue::Map(_, m) => m.values().for_each(|x| leaves(x, out)),
        s => out.push(s.clone()),
    }
}

/// A value expression of primitive type reachable from a field, as text, with its primitive type and
/// whether it contains `[*]` (array-valued).
fn gen_path(spec: &SchemeSpec, want: Option<&MType>, allow_each: bool) -> Option<(String, MType, bool)> {
    // candidates: fields whose primitive base type matches
    let cands: Vec<usize> = spec
        .fields
        .iter()
        .enumerate()
        .filter(|(_, (_, t, _))| want.is_none_or(|w| t.prim() == w))
        .map(|(i, _)| i)
        .collect();
    if cands.is_empty() {
        return None;
    }
    let (name, ty, _) = &spec.fields[cands[choose(cands.len(), "path.field")]];
    let mut text = name.clone();
    let mut t = ty.clone();
    let mut each = false;
    loop {
        match t.clone() {
            MType::Array(inner) => {
                if allow_each && !each && chance(1, 2, "path.each") {
                    text.push_str("[*]");
                    each = true;
                } else {
                    text.push_str(&format!("[{}]", choose(3, "path.idx")));
                }
                t = *inner;
            }
            MType::Map(inner) => {
                if allow_each && !each && chance(1, 3, "path.each") {
                    text.push_str("[*]");
                    each = true;
                } else {
                    let keys = ["k", "key", "k1", "host", "a"];
                    text.push_str(&format!("[\"{}\"]", keys[choose(keys.len(), "path.key")]));
                }
                t = *inner;
            }
            _ => break,
        }
    }
    Some((text, t, each))
}

fn wrap_fn(spec: &SchemeSpec, text: String, ty: &MType) -> (String, MType) {
    // maybe wrap a Bytes/Int/Ip expression into a harness function call
    if !chance(1, 3, "expr.fn") {
        return (text, ty.clone());
    }
    let cands: Vec<&str> = spec
        .functions
        .iter()
        .copied()
        .filter(|f| match (*f, ty) {
            ("echo" | "lower" | "len" | "join" | "boom" | "concat", MType::Bytes) => true,
            ("idint", MType::Int) => true,
            ("idip", MType::Ip) => true,
            _ => false,
        })
        .collect();
    if cands.is_empty() {
        return (text, ty.clone());
    }
    // map-each with an expensive (memoised) non-mapped argument is the interesting shape for shared state:
    // make it common whenever the path ends in [*]
    if text.ends_with("[*]") && cands.contains(&"join") && chance(1, 3, "expr.memo_form") {
        if let Some((p, _, _)) = gen_path(spec, Some(&MType::Bytes), false) {
            let inner = ["lower", "echo"][choose(2, "expr.memo_inner")];
            if spec.functions.contains(&inner) {
                return (format!("join({text}, {inner}({p}))"), MType::Bytes);
            }
        }
    }
    let fname = cands[choose(cands.len(), "expr.fname")];
    match fname {
        "len" => (format!("len({text})"), MType::Int),
        "join" => {
            // optional extra arguments: a literal, or an expensive nested call (memoised under map-each)
            let extra = match choose(4, "expr.join_extra") {
                0 => String::new(),
                1 => ", \"+\"".to_string(),
                2 => {
                    if let Some((p, _, _)) = gen_path(spec, Some(&MType::Bytes), false) {
                        format!(", lower({p})")
                    } else {
                        String::new()
                    }
                }
                _ => {
                    if let Some((p, _, _)) = gen_path(spec, Some(&MType::Bytes), false) {
                        format!(", echo({p}), \"!\"")
                    } else {
                        ", \"a\", \"b\"".to_string()
                    }
                }
            };
            (format!("join({text}{extra})"), MType::Bytes)
        }
        "concat" => {
            // built-in concat: needs at least two arguments; the second is a literal or another (possibly expensive) expression
            let second = match choose(3, "expr.concat_2nd") {
                0 => "\"-x\"".to_string(),
                1 => gen_path(spec, Some(&MType::Bytes), false).map(|(p, _, _)| p).unwrap_or_else(|| "\"y\"".to_string()),
                _ => gen_path(spec, Some(&MType::Bytes), false).map(|(p, _, _)| format!("lower({p})")).unwrap_or_else(|| "\"z\"".to_string()),
            };
            (format!("concat({text}, {second})"), MType::Bytes)
        }
        other => (format!("{other}({text})"), ty.clone()),
    }
}

fn gen_cmp(spec: &SchemeSpec, pool: &[MValue]) -> Option<String> {
    let want = match choose_w(&[5, 3, 2, 1], "cmp.type") {
        0 => MType::Bytes,
        1 => MType::Int,
        2 => MType::Ip,
        _ => MType::Bool,
    };
    let (path, _, mut each) = gen_path(spec, Some(&want), true)?;
    let (mut lhs, ty) = wrap_fn(spec, path.clone(), &want);
    let mut path = path;
    if want == MType::Bytes && spec.functions.contains(&"concat") && chance(1, 16, "cmp.literal_call") {
        // a call whose arguments are all literals: nothing of the context enters the left-hand side
        crate::kernel::count("gen.literal_only_call");
        // (an empty second literal half of the time: the result is then a pool value, which set lists may contain)
        let second = if chance(1, 2, "cmp.literal_call_empty") { "\"\"".to_string() } else { literal_for(&MType::Bytes, pool) };
        lhs = format!("concat({}, {second})", literal_for(&MType::Bytes, pool));
        path = lhs.clone();
        each = false;
    }
    if each && lhs != path {
        // a function applied to a [*] path yields an array: iterate it again for the comparison
        lhs.push_str("[*]");
    }
    let body = match ty {
        MType::Bool => lhs.clone(),
        MType::Int => match choose(6, "cmp.int_op") {
            0 => format!("{lhs} == {}", literal_for(&ty, pool)),
            1 => format!("{lhs} != {}", literal_for(&ty, pool)),
            2 => format!("{lhs} >= {}", literal_for(&ty, pool)),
            3 => format!("{lhs} < {}", literal_for(&ty, pool)),
            4 => format!("{lhs} in {{{} {} 80..90}}", literal_for(&ty, pool), literal_for(&ty, pool)),
            _ => format!("{lhs} & {}", 1 + choose(255, "cmp.mask")),
        },
        MType::Ip => match choose(4, "cmp.ip_op") {
            0 => format!("{lhs} == {}", literal_for(&ty, pool)),
            1 => format!("{lhs} != {}", literal_for(&ty, pool)),
            2 => format!("{lhs} in {{10.0.0.0/8 192.168.0.0/16 ::ffff:0:0/96 {}}}", literal_for(&ty, pool)),
            _ => format!("{lhs} >= {}", literal_for(&ty, pool)),
        },
        MType::Bytes => match choose(9, "cmp.bytes_op") {
            0 => format!("{lhs} == {}", literal_for(&ty, pool)),
            1 => format!("{lhs} != {}", literal_for(&ty, pool)),
            2 => format!("{lhs} contains {}", gen_needle(pool)),
            3 => format!("{lhs} matches \"{}\"", REGEXES[choose(REGEXES.len(), "cmp.re")]),
            4 => format!("{lhs} matches r#\"{}\"#", REGEXES[choose(REGEXES.len(), "cmp.re")]),
            5 => format!("{lhs} wildcard \"{}\"", gen_wildcard()),
            6 => format!("{lhs} strict wildcard \"{}\"", gen_wildcard()),
            7 => format!("{lhs} in {{{} {}}}", literal_for(&ty, pool), literal_for(&ty, pool)),
            _ => format!("{lhs} < {}", literal_for(&ty, pool)),
        },
        _ => return None,
    };
    let body = maybe_in_list(spec, &lhs, &ty, body);
    if each {
        let q = if chance(1, 2, "cmp.quant") { "any" } else { "all" };
        Some(format!("{q}({body})"))
    } else {
        Some(body)
    }
}

fn maybe_in_list(spec: &SchemeSpec, lhs: &str, ty: &MType, body: String) -> String {
    if spec.list_index(ty).is_some() && matches!(ty, MType::Int | MType::Ip | MType::Bytes) && chance(1, 3, "cmp.inlist") {
        format!("{lhs} in ${}", gen_list_name())
    } else {
        body
    }
}

const REGEXES: &[&str] = &["^a", "e+x", "(one|two)", "[0-9]+$", "^$", "(?i)abc", "a.c", "\\\\.com$", "^.{3}$"];
const WILDCARDS: &[&str] = &["*", "a*", "*.com", "o?e", "ABC", "*e*", "t*o", "EXAMPLE.*", "*AMPLE.com", "Example.Com", "/P/A/T/H*", "needle*"];

thread_local! {
    static RUN_WILDCARD: std::cell::Cell<Option<&'static str>> = const { std::cell::Cell::new(None) };
}

/// One wildcard pattern preferred by every wildcard comparison generated during this run, so that the same
/// pattern text tends to appear under both `wildcard` and `strict wildcard`, in several filters of one run.
pub fn set_run_wildcard(on: bool) {
    RUN_WILDCARD.with(|c| c.set(if on { Some(WILDCARDS[7 + choose(WILDCARDS.len() - 7, "run.wildcard")]) } else { None }));
}

fn gen_wildcard() -> &'static str {
    match RUN_WILDCARD.with(|c| c.get()) {
        Some(p) if chance(2, 3, "cmp.wc_run") => p,
        _ => WILDCARDS[choose(WILDCARDS.len(), "cmp.wc")],
    }
}

fn gen_needle(pool: &[MValue]) -> String {
    // needles from substrings of pool byte strings or fresh, lengths crossing 0/1/2..16/>16
    let bytes: Vec<&Vec<u8>> = pool
        .iter()
        .filter_map(|v| if let MValue::Bytes(b) = v { Some(b) } else { None })
        .filter(|b| !b.is_empty())
        .collect();
    if !bytes.is_empty() && chance(2, 3, "needle.pool") {
        let b = bytes[choose(bytes.len(), "needle.pick")];
        let start = choose(b.len(), "needle.start");
        let maxlen = b.len() - start;
        let len = match choose_w(&[1, 2, 4, 2], "needle.lenclass") {
            0 => 0,
            1 => 1,
            2 => range(2, 16, "needle.len"),
            _ => range(17, 40, "needle.len"),
        }
        .min(maxlen);
        bytes_literal(&b[start..start + len])
    } else {
        let pool = ["", "a", "ne", "needle", "example.com", "abcdefghijklmnopqrstuvwxyz"];
        bytes_literal(pool[choose(pool.len(), "needle.fresh")].as_bytes())
    }
}

/// Boolean filter text of bounded depth.
/// Filter text. One text in five is laid out with line breaks and runs of blanks where the others have one space.
pub fn gen_filter(spec: &SchemeSpec, pool: &[MValue], depth: usize) -> Option<String> {
    let text = gen_filter_inner(spec, pool, depth)?;
    Some(if chance(1, 5, "flt.layout") { vary_whitespace(&text) } else { text })
}

/// Replace blanks outside string literals by a tape-chosen blank sequence (space, line feed, CR LF, several spaces).
pub fn vary_whitespace(text: &str) -> String {
    let mut out = String::with_capacity(text.len() + 8);
    let mut in_str = false;
    let mut prev = ' ';
    for c in text.chars() {
        if c == '"' && (prev != '\\' || !in_str) {
            in_str = !in_str;
        }
        if c == ' ' && !in_str {
            out.push_str([" ", "\n", "\r\n", "  ", " \n "][choose(5, "flt.blank")]);
        } else {
            out.push(c);
        }
        prev = c;
    }
    crate::kernel::count("gen.layout_varied");
    out
}

fn gen_filter_inner(spec: &SchemeSpec, pool: &[MValue], depth: usize) -> Option<String> {
    if depth == 0 || chance(2, 5, "flt.leaf") {
        return gen_cmp(spec, pool);
    }
    match choose(5, "flt.kind") {
        0 => Some(format!("not {}", gen_filter_inner(spec, pool, depth - 1)?)),
        1 => Some(format!("({})", gen_filter_inner(spec, pool, depth - 1)?)),
        k => {
            let op = match k {
                2 => ["and", "&&"][choose(2, "flt.alias")],
                3 => ["or", "||"][choose(2, "flt.alias")],
                _ => ["xor", "^^"][choose(2, "flt.alias")],
            };
            Some(format!(
                "{} {op} {}",
                gen_filter_inner(spec, pool, depth - 1)?,
                gen_filter_inner(spec, pool, depth - 1)?
            ))
        }
    }
}

/// Value expression text (no `[*]`).
pub fn gen_value_expr(spec: &SchemeSpec) -> Option<String> {
    let (path, ty, _) = gen_path(spec, None, false)?;
    let (text, _) = wrap_fn(spec, path, &ty);
    Some(text)
}
