//! Order-preserving JSON document tree (duplicate members, member order, key re-encoding and inserted
//! whitespace can be expressed), with a small parser for serializer output and a printer.

#[derive(Clone, Debug, PartialEq)]
pub enum J {
    Null,
    Bool(bool),
    /// literal number text
    Num(String),
    Str(String),
    Arr(Vec<J>),
    Obj(Vec<(String, J)>),
}

#[derive(Clone, Copy, Debug, Default)]
pub struct Style {
    /// print every key character as \uXXXX
    pub escape_keys: bool,
    /// print every string-value character as \uXXXX
    pub escape_strings: bool,
    /// insert whitespace around structural characters
    pub whitespace: bool,
}

pub fn parse(text: &str) -> Result<J, String> {
    let b = text.as_bytes();
    let mut p = 0usize;
    let v = parse_value(b, &mut p)?;
    skip_ws(b, &mut p);
    if p != b.len() {
        return Err(format!("trailing characters at {p}"));
    }
    Ok(v)
}

fn skip_ws(b: &[u8], p: &mut usize) {
    while *p < b.len() && matches!(b[*p], b' ' | b'\n' | b'\t' | b'\r') {
        *p += 1;
    }
}

fn parse_value(b: &[u8], p: &mut usize) -> Result<J, String> {
    skip_ws(b, p);
    if *p >= b.len() {
        return Err("eof".into());
    }
    match b[*p] {
        b'n' if b[*p..].starts_with(b"null") => {
            *p += 4;
            Ok(J::Null)
        }
        b't' if b[*p..].starts_with(b"true") => {
            *p += 4;
            Ok(J::Bool(true))
        }
        b'f' if b[*p..].starts_with(b"false") => {
            *p += 5;
            Ok(J::Bool(false))
        }
        b'"' => Ok(J::Str(parse_string(b, p)?)),
        b'[' => {
            *p += 1;
            let mut v = Vec::new();
            skip_ws(b, p);
            if *p < b.len() && b[*p] == b']' {
                *p += 1;
                return Ok(J::Arr(v));
            }
            loop {
                v.push(parse_value(b, p)?);
                skip_ws(b, p);
                match b.get(*p) {
                    Some(b',') => *p += 1,
                    Some(b']') => {
                        *p += 1;
                        return Ok(J::Arr(v));
                    }
                    _ => return Err(format!("expected , or ] at {p}")),
                }
            }
        }
        b'{' => {
            *p += 1;
            let mut v = Vec::new();
            skip_ws(b, p);
            if *p < b.len() && b[*p] == b'}' {
                *p += 1;
                return Ok(J::Obj(v));
            }
            loop {
                skip_ws(b, p);
                if b.get(*p) != Some(&b'"') {
                    return Err(format!("expected key at {p}"));
                }
                let k = parse_string(b, p)?;
                skip_ws(b, p);
                if b.get(*p) != Some(&b':') {
                    return Err(format!("expected : at {p}"));
                }
                *p += 1;
                let val = parse_value(b, p)?;
                v.push((k, val));
                skip_ws(b, p);
                match b.get(*p) {
                    Some(b',') => *p += 1,
                    Some(b'}') => {
                        *p += 1;
                        return Ok(J::Obj(v));
                    }
                    _ => return Err(format!("expected , or }} at {p}")),
                }
            }
        }
        b'-' | b'0'..=b'9' => {
            let s = *p;
            while *p < b.len() && matches!(b[*p], b'-' | b'+' | b'.' | b'e' | b'E' | b'0'..=b'9') {
                *p += 1;
            }
            Ok(J::Num(String::from_utf8_lossy(&b[s..*p]).into_owned()))
        }
        c => Err(format!("unexpected byte {c:#x} at {p}")),
    }
}

fn parse_string(b: &[u8], p: &mut usize) -> Result<String, String> {
    // delegate unescaping to serde_json on the exact slice
    let s = *p;
    *p += 1;
    while *p < b.len() {
        match b[*p] {
            b'\\' => *p += 2,
            b'"' => {
                *p += 1;
                let lit = std::str::from_utf8(&b[s..*p]).map_err(|e| e.to_string())?;
                return serde_json::from_str::<String>(lit).map_err(|e| e.to_string());
            }
            _ => *p += 1,
        }
    }
    Err("unterminated string".into())
}

fn print_str(s: &str, escape_all: bool, out: &mut String) {
    if escape_all {
        out.push('"');
        let mut buf = [0u16; 2];
        for c in s.chars() {
            for u in c.encode_utf16(&mut buf) {
                out.push_str(&format!("\\u{:04x}", u));
            }
        }
        out.push('"');
    } else {
        out.push_str(&serde_json::to_string(s).unwrap());
    }
}

pub fn print(j: &J, st: Style) -> String {
    let mut out = String::new();
    print_into(j, st, &mut out);
    out
}

fn print_into(j: &J, st: Style, out: &mut String) {
    let ws = if st.whitespace { " " } else { "" };
    match j {
        J::Null => out.push_str("null"),
        J::Bool(b) => out.push_str(if *b { "true" } else { "false" }),
        J::Num(n) => out.push_str(n),
        J::Str(s) => print_str(s, st.escape_strings, out),
        J::Arr(v) => {
            out.push('[');
            out.push_str(ws);
            for (i, e) in v.iter().enumerate() {
                if i > 0 {
                    out.push(',');
                    out.push_str(ws);
                }
                print_into(e, st, out);
            }
            out.push_str(ws);
            out.push(']');
        }
        J::Obj(v) => {
            out.push('{');
            if st.whitespace {
                out.push_str("\n\t");
            }
            for (i, (k, e)) in v.iter().enumerate() {
                if i > 0 {
                    out.push(',');
                    out.push_str(ws);
                }
                print_str(k, st.escape_keys, out);
                out.push_str(ws);
                out.push(':');
                out.push_str(ws);
                print_into(e, st, out);
            }
            if st.whitespace {
                out.push_str("\r\n");
            }
            out.push('}');
        }
    }
}

impl J {
    pub fn to_value(&self) -> serde_json::Value {
        serde_json::from_str(&print(self, Style::default())).unwrap_or(serde_json::Value::Null)
    }
    /// The same document with only the first occurrence of every repeated object key kept (at every level).
    pub fn keep_first_keys(&self) -> J {
        match self {
            J::Obj(v) => {
                let mut seen = std::collections::BTreeSet::new();
                J::Obj(v.iter().filter(|(k, _)| seen.insert(k.clone())).map(|(k, e)| (k.clone(), e.keep_first_keys())).collect())
            }
            J::Arr(v) => J::Arr(v.iter().map(|e| e.keep_first_keys()).collect()),
            other => other.clone(),
        }
    }
    pub fn has_duplicate_keys(&self) -> bool {
        match self {
            J::Obj(v) => {
                let mut seen = std::collections::BTreeSet::new();
                for (k, e) in v {
                    if !seen.insert(k.clone()) || e.has_duplicate_keys() {
                        return true;
                    }
                }
                false
            }
            J::Arr(v) => v.iter().any(|e| e.has_duplicate_keys()),
            _ => false,
        }
    }
}
