//! xoshiro256** + splitmix64 + FNV helpers. Own implementation so that replay never depends on a crate version.

#[derive(Clone, Debug)]
pub struct Xoshiro {
    s: [u64; 4],
}

pub fn splitmix(x: &mut u64) -> u64 {
    *x = x.wrapping_add(0x9E37_79B9_7F4A_7C15);
    let mut z = *x;
    z = (z ^ (z >> 30)).wrapping_mul(0xBF58_476D_1CE4_E5B9);
    z = (z ^ (z >> 27)).wrapping_mul(0x94D0_49BB_1331_11EB);
    z ^ (z >> 31)
}

impl Xoshiro {
    pub fn new(seed: u64) -> Self {
        let mut x = seed;
        let s = [
            splitmix(&mut x),
            splitmix(&mut x),
            splitmix(&mut x),
            splitmix(&mut x),
        ];
        Xoshiro { s }
    }

    pub fn next(&mut self) -> u64 {
        let r = self.s[1].wrapping_mul(5).rotate_left(7).wrapping_mul(9);
        let t = self.s[1] << 17;
        self.s[2] ^= self.s[0];
        self.s[3] ^= self.s[1];
        self.s[1] ^= self.s[2];
        self.s[0] ^= self.s[3];
        self.s[2] ^= t;
        self.s[3] = self.s[3].rotate_left(45);
        r
    }

    /// Uniform in 0..n (n >= 1); multiply-shift, bias negligible for n < 2^32.
    pub fn below(&mut self, n: u32) -> u32 {
        (((self.next() >> 32) * n as u64) >> 32) as u32
    }
}

pub const FNV_OFFSET: u64 = 0xcbf2_9ce4_8422_2325;
pub const FNV_PRIME: u64 = 0x0000_0100_0000_01b3;

#[inline]
pub fn fnv_bytes(mut h: u64, bytes: &[u8]) -> u64 {
    for b in bytes {
        h ^= *b as u64;
        h = h.wrapping_mul(FNV_PRIME);
    }
    h
}

#[inline]
pub fn fnv_u64(h: u64, v: u64) -> u64 {
    fnv_bytes(h, &v.to_le_bytes())
}

/// Mix (seed, property, run index) into one PRNG seed.
pub fn mix(seed: u64, prop: &str, run: u64) -> u64 {
    let mut h = fnv_bytes(FNV_OFFSET, prop.as_bytes());
    h = fnv_u64(h, seed);
    h = fnv_u64(h, run);
    let mut x = h;
    splitmix(&mut x)
}
