//! Reference models: types, values, contexts. Small and obviously right.

use crate::kernel::{chance, choose, choose_w, range};
use std::collections::{BTreeMap, BTreeSet};
use std::net::{IpAddr, Ipv4Addr, Ipv6Addr};
use wirefilter::{Array, GetType, LhsValue, Map, Type, TypeMismatchError};

#[derive(Clone, Debug, PartialEq, Eq, PartialOrd, Ord, Hash)]
pub enum MType {
    Bool,
    Int,
    Ip,
    Bytes,
    Array(Box<MType>),
    Map(Box<MType>),
}

impl MType {
    pub fn arr(t: MType) -> MType {
        MType::Array(Box::new(t))
    }
    pub fn map(t: MType) -> MType {
        MType::Map(Box::new(t))
    }
    pub fn depth(&self) -> usize {
        match self {
            MType::Array(t) | MType::Map(t) => 1 + t.depth(),
            _ => 0,
        }
    }
    /// Panics (in the engine) when depth > 32 — callers keep depth <= 32.
    pub fn to_type(&self) -> Type {
        match self {
            MType::Bool => Type::Bool,
            MType::Int => Type::Int,
            MType::Ip => Type::Ip,
            MType::Bytes => Type::Bytes,
            MType::Array(t) => Type::Array(t.to_type().into()),
            MType::Map(t) => Type::Map(t.to_type().into()),
        }
    }
    pub fn from_type(t: Type) -> MType {
        match t {
            Type::Bool => MType::Bool,
            Type::Int => MType::Int,
            Type::Ip => MType::Ip,
            Type::Bytes => MType::Bytes,
            Type::Array(c) => MType::arr(MType::from_type(c.into())),
            Type::Map(c) => MType::map(MType::from_type(c.into())),
        }
    }
    pub fn prim(&self) -> &MType {
        match self {
            MType::Array(t) | MType::Map(t) => t.prim(),
            p => p,
        }
    }
    /// Type JSON as the engine writes it: "Int" or {"Array": ...}
    pub fn to_json(&self) -> serde_json::Value {
        match self {
            MType::Bool => "Bool".into(),
            MType::Int => "Int".into(),
            MType::Ip => "Ip".into(),
            MType::Bytes => "Bytes".into(),
            MType::Array(t) => serde_json::json!({"Array": t.to_json()}),
            MType::Map(t) => serde_json::json!({"Map": t.to_json()}),
        }
    }
    pub fn short(&self) -> String {
        match self {
            MType::Bool => "Bool".into(),
            MType::Int => "Int".into(),
            MType::Ip => "Ip".into(),
            MType::Bytes => "Bytes".into(),
            MType::Array(t) => format!("A<{}>", t.short()),
            MType::Map(t) => format!("M<{}>", t.short()),
        }
    }
}

#[derive(Clone, Debug, PartialEq, Eq, PartialOrd, Ord, Hash)]
pub enum MValue {
    Bool(bool),
    Int(i64),
    Ip(IpAddr),
    Bytes(Vec<u8>),
    /// element type, elements
    Array(MType, Vec<MValue>),
    /// value type, entries
    Map(MType, BTreeMap<Vec<u8>, MValue>),
}

impl MValue {
    /// Declared type (what the container says it holds).
    pub fn mtype(&self) -> MType {
        match self {
            MValue::Bool(_) => MType::Bool,
            MValue::Int(_) => MType::Int,
            MValue::Ip(_) => MType::Ip,
            MValue::Bytes(_) => MType::Bytes,
            MValue::Array(t, _) => MType::arr(t.clone()),
            MValue::Map(t, _) => MType::map(t.clone()),
        }
    }

    /// Every element really has the declared element type, recursively.
    pub fn homogeneous(&self) -> bool {
        match self {
            MValue::Array(t, v) => v.iter().all(|e| e.mtype() == *t && e.homogeneous()),
            MValue::Map(t, m) => m.values().all(|e| e.mtype() == *t && e.homogeneous()),
            _ => true,
        }
    }

    /// Build the real value through the public checked constructors. `Err` when the engine refuses.
    pub fn to_lhs(&self) -> Result<LhsValue<'static>, TypeMismatchError> {
        Ok(match self {
            MValue::Bool(b) => LhsValue::Bool(*b),
            MValue::Int(i) => LhsValue::Int(*i),
            MValue::Ip(ip) => LhsValue::Ip(*ip),
            MValue::Bytes(b) => LhsValue::Bytes(b.clone().into()),
            MValue::Array(t, v) => {
                let mut elems = Vec::with_capacity(v.len());
                for e in v {
                    elems.push(e.to_lhs()?);
                }
                LhsValue::Array(Array::try_from_iter(t.to_type(), elems)?)
            }
            MValue::Map(t, m) => {
                let mut elems = Vec::with_capacity(m.len());
                for (k, e) in m {
                    elems.push((k.clone().into_boxed_slice(), e.to_lhs()?));
                }
                LhsValue::Map(Map::try_from_iter::<TypeMismatchError, _>(
                    t.to_type(),
                    elems.into_iter().map(Ok),
                )?)
            }
        })
    }

    /// Structural read-back of a real value: element types are recomputed from the elements' variants,
    /// the container's own tag is kept as the declared type.
    pub fn from_lhs(v: &LhsValue<'_>) -> MValue {
        match v {
            LhsValue::Bool(b) => MValue::Bool(*b),
            LhsValue::Int(i) => MValue::Int(*i),
            LhsValue::Ip(ip) => MValue::Ip(*ip),
            LhsValue::Bytes(b) => MValue::Bytes(b.to_vec()),
            LhsValue::Array(a) => MValue::Array(
                MType::from_type(a.value_type()),
                a.iter().map(MValue::from_lhs).collect(),
            ),
            LhsValue::Map(m) => MValue::Map(
                MType::from_type(m.value_type()),
                m.iter().map(|(k, v)| (k.to_vec(), MValue::from_lhs(v))).collect(),
            ),
        }
    }

    pub fn render(&self) -> String {
        match self {
            MValue::Bool(b) => format!("{b}"),
            MValue::Int(i) => format!("{i}"),
            MValue::Ip(ip) => format!("{ip}"),
            MValue::Bytes(b) => render_bytes(b),
            MValue::Array(t, v) => format!(
                "[{}|{}]",
                t.short(),
                v.iter().map(|e| e.render()).collect::<Vec<_>>().join(",")
            ),
            MValue::Map(t, m) => format!(
                "{{{}|{}}}",
                t.short(),
                m.iter()
                    .map(|(k, e)| format!("{}:{}", render_bytes(k), e.render()))
                    .collect::<Vec<_>>()
                    .join(",")
            ),
        }
    }
}

pub fn render_bytes(b: &[u8]) -> String {
    match std::str::from_utf8(b) {
        Ok(s) if s.chars().all(|c| !c.is_control() && c != '"') && s.len() <= 40 => format!("\"{s}\""),
        _ => {
            let mut o = String::from("x'");
            for x in b.iter().take(24) {
                o.push_str(&format!("{x:02x}"));
            }
            if b.len() > 24 {
                o.push_str(&format!("..+{}", b.len() - 24));
            }
            o.push('\'');
            o
        }
    }
}

/// Deep structural well-typedness of a real value against an engine type: every nested element's
/// *variant* is what the type says (the stored container tags are checked too).
pub fn deep_well_typed(v: &LhsValue<'_>, ty: &Type) -> bool {
    match (v, ty) {
        (LhsValue::Bool(_), Type::Bool) => true,
        (LhsValue::Int(_), Type::Int) => true,
        (LhsValue::Ip(_), Type::Ip) => true,
        (LhsValue::Bytes(_), Type::Bytes) => true,
        (LhsValue::Array(a), Type::Array(et)) => {
            let et: Type = (*et).into();
            a.value_type() == et && a.iter().all(|e| deep_well_typed(e, &et))
        }
        (LhsValue::Map(m), Type::Map(et)) => {
            let et: Type = (*et).into();
            m.value_type() == et && m.iter().all(|(_, e)| deep_well_typed(e, &et))
        }
        _ => false,
    }
}

pub fn lhs_type_of(v: &LhsValue<'_>) -> Type {
    v.get_type()
}

// ------------------------------------------------------------------ value generation (all through the tape)

pub fn gen_int() -> i64 {
    match choose_w(&[3, 2, 2, 2, 2, 2, 6], "int.class") {
        0 => 0,
        1 => 1,
        2 => -1,
        3 => i64::MAX,
        4 => i64::MIN,
        5 => 80 + choose(400, "int.small") as i64,
        _ => {
            let hi = choose(1 << 16, "int.hi") as i64;
            let lo = choose(1 << 16, "int.lo") as i64;
            let v = (hi << 40) ^ (lo << 13) ^ lo;
            if chance(1, 2, "int.neg") { -v } else { v }
        }
    }
}

pub fn gen_ip() -> IpAddr {
    match choose_w(&[2, 2, 2, 2, 3, 3, 2], "ip.class") {
        0 => IpAddr::V4(Ipv4Addr::new(0, 0, 0, 0)),
        1 => IpAddr::V4(Ipv4Addr::new(255, 255, 255, 255)),
        2 => IpAddr::V6(Ipv6Addr::UNSPECIFIED),
        3 => {
            let a = choose(256, "ip.b") as u8;
            IpAddr::V6(Ipv4Addr::new(10, 0, a, 1).to_ipv6_mapped())
        }
        4 => IpAddr::V4(Ipv4Addr::new(
            choose(256, "ip.b") as u8,
            choose(256, "ip.b") as u8,
            choose(4, "ip.b") as u8,
            choose(256, "ip.b") as u8,
        )),
        5 => {
            let mut seg = [0u16; 8];
            for s in seg.iter_mut() {
                *s = if chance(1, 2, "ip6.z") { 0 } else { choose(1 << 16, "ip6.s") as u16 };
            }
            IpAddr::V6(Ipv6Addr::from(seg))
        }
        _ => IpAddr::V4(Ipv4Addr::new(192, 168, 0, 1 + choose(8, "ip.low") as u8)),
    }
}

const WORDS: &[&str] = &[
    "", "a", "GET", "example.com", "abc", "ABC", "one", "two", "three", "x-y_z", "héllo", "/p/a/t/h?q=1", "0", "needle", "\u{1F600}",
];

pub fn gen_bytes() -> Vec<u8> {
    match choose_w(&[16, 4, 4, 4, 2, 4, 2, 1], "bytes.class") {
        7 => {
            // long: around the buffer sizes readers and writers work in; every eighth one not UTF-8
            let n = [1023usize, 4096, 8191, 8192, 8193, 65536][choose(6, "bytes.long")];
            let mut v: Vec<u8> = (0..n).map(|i| b'a' + ((i * 11 + n) % 26) as u8).collect();
            if chance(1, 8, "bytes.long_raw") {
                v[n / 2] = 0xFE;
            }
            v
        }
        0 => WORDS[choose(WORDS.len(), "bytes.word")].as_bytes().to_vec(),
        1 => vec![0xC3, 0x28],
        2 => vec![0xFF],
        3 => vec![b'a', 0, b'b'],
        4 => {
            let n = 200 + choose(120, "bytes.len");
            (0..n).map(|i| b'a' + ((i * 7 + n) % 26) as u8).collect()
        }
        5 => {
            let n = choose(6, "bytes.len");
            (0..n).map(|_| choose(256, "bytes.b") as u8).collect()
        }
        _ => {
            // mixed-case / quote / backslash / control characters (JSON escapes)
            let pool: &[&[u8]] = &[b"q\"x", b"back\\slash", b"tab\there", b"nl\n", b"\x01\x1f", b"MiXeD"];
            pool[choose(pool.len(), "bytes.esc")].to_vec()
        }
    }
}

pub fn gen_key() -> Vec<u8> {
    // UTF-8 and non-UTF-8 keys that sort before, between and after each other (the map encoding switches
    // representation on "every key is UTF-8", and the keys are kept sorted)
    match choose_w(&[10, 2, 1, 1, 1, 1], "key.class") {
        0 => {
            let pool = ["k", "key", "k1", "k2", "", "a", "b", "host", "kéy", "k\"q", "z", "zz", "é", "€", "~"];
            pool[choose(pool.len(), "key.word")].as_bytes().to_vec()
        }
        1 => vec![0xFF, b'k'],
        2 => vec![0xC3, 0x28],
        3 => vec![b'k', 0xFE],
        4 => vec![b'b', 0xFF],
        _ => vec![0x80],
    }
}

/// Generate a well-typed value. `size` bounds container lengths.
pub fn gen_value(ty: &MType, size: usize) -> MValue {
    match ty {
        MType::Bool => MValue::Bool(chance(1, 2, "val.bool")),
        MType::Int => MValue::Int(gen_int()),
        MType::Ip => MValue::Ip(gen_ip()),
        MType::Bytes => MValue::Bytes(gen_bytes()),
        MType::Array(t) => {
            if size >= 3 && chance(1, 40, "arr.big") {
                // many elements (counts around the widths of small integers), each small
                let n = [17usize, 33, 64, 65, 255, 256, 257, 1000][choose(8, "arr.big_n")];
                return MValue::Array((**t).clone(), (0..n).map(|_| gen_value(t, 1)).collect());
            }
            let n = choose_w(&[2, 3, 3, 2, 1, 1, 1], "arr.len").min(size);
            MValue::Array((**t).clone(), (0..n).map(|_| gen_value(t, size.saturating_sub(1).max(1))).collect())
        }
        MType::Map(t) => {
            if size >= 3 && chance(1, 40, "map.big") {
                let n = [17usize, 33, 65, 257][choose(4, "map.big_n")];
                let mut m = BTreeMap::new();
                for i in 0..n {
                    m.insert(format!("k{i:03}").into_bytes(), gen_value(t, 1));
                }
                if chance(1, 3, "map.big_raw") {
                    m.insert(vec![b'k', 0xFE], gen_value(t, 1));
                }
                return MValue::Map((**t).clone(), m);
            }
            let n = choose_w(&[2, 3, 3, 2, 1], "map.len").min(size);
            let mut m = BTreeMap::new();
            for _ in 0..n {
                m.insert(gen_key(), gen_value(t, size.saturating_sub(1).max(1)));
            }
            if size >= 3 && chance(1, 8, "map.sandwich") {
                // a non-UTF-8 key strictly between two UTF-8 keys, or the other way round
                let keys: [&[u8]; 3] = if chance(1, 2, "map.sandwich_kind") { [b"a", &[b'k', 0xFE], b"z"] } else { [&[0x80], "\u{e9}".as_bytes(), &[0xFF, b'k']] };
                for k in keys {
                    m.insert(k.to_vec(), gen_value(t, 1));
                }
            }
            MValue::Map((**t).clone(), m)
        }
    }
}

/// A random type with at most `max_depth` container layers.
pub fn gen_type(max_depth: usize) -> MType {
    let d = range(0, max_depth, "type.depth");
    let mut t = match choose(4, "type.prim") {
        0 => MType::Bytes,
        1 => MType::Int,
        2 => MType::Ip,
        _ => MType::Bool,
    };
    for _ in 0..d {
        t = if chance(1, 2, "type.layer") { MType::map(t) } else { MType::arr(t) };
    }
    t
}

// ------------------------------------------------------------------ set-list values

#[derive(Clone, Debug, PartialEq, Eq, PartialOrd, Ord, Hash)]
pub enum SetVal {
    Int(i64),
    Ip(IpAddr),
    Bytes(Vec<u8>),
    Other(String),
}

impl SetVal {
    pub fn from_lhs(v: &LhsValue<'_>) -> SetVal {
        match v {
            LhsValue::Int(i) => SetVal::Int(*i),
            LhsValue::Ip(ip) => SetVal::Ip(*ip),
            LhsValue::Bytes(b) => SetVal::Bytes(b.to_vec()),
            other => SetVal::Other(format!("{other:?}")),
        }
    }
    pub fn from_m(v: &MValue) -> SetVal {
        match v {
            MValue::Int(i) => SetVal::Int(*i),
            MValue::Ip(ip) => SetVal::Ip(*ip),
            MValue::Bytes(b) => SetVal::Bytes(b.clone()),
            other => SetVal::Other(other.render()),
        }
    }
    pub fn encode(&self) -> String {
        match self {
            SetVal::Int(i) => format!("i{i}"),
            SetVal::Ip(ip) => format!("p{ip}"),
            SetVal::Bytes(b) => {
                let mut s = String::from("b");
                for x in b {
                    s.push_str(&format!("{x:02x}"));
                }
                s
            }
            SetVal::Other(o) => format!("o{o}"),
        }
    }
    pub fn decode(s: &str) -> Option<SetVal> {
        let (tag, rest) = s.split_at(s.char_indices().nth(1).map(|x| x.0).unwrap_or(s.len()));
        match tag {
            "i" => rest.parse().ok().map(SetVal::Int),
            "p" => rest.parse().ok().map(SetVal::Ip),
            "b" => {
                if rest.len() % 2 != 0 || !rest.is_ascii() {
                    return None;
                }
                let mut v = Vec::new();
                for i in (0..rest.len()).step_by(2) {
                    v.push(u8::from_str_radix(&rest[i..i + 2], 16).ok()?);
                }
                Some(SetVal::Bytes(v))
            }
            "o" => Some(SetVal::Other(rest.to_string())),
            _ => None,
        }
    }
}

pub type ListState = BTreeMap<String, BTreeSet<SetVal>>;

// ------------------------------------------------------------------ context model

#[derive(Clone, Debug, PartialEq, Eq)]
pub struct ModelCtx {
    pub values: Vec<Option<MValue>>,
    /// one entry per registered list, in registration order; None for always / never lists
    pub lists: Vec<Option<ListState>>,
}

impl ModelCtx {
    pub fn new(nfields: usize, lists: &[bool]) -> Self {
        ModelCtx {
            values: vec![None; nfields],
            lists: lists
                .iter()
                .map(|is_set| if *is_set { Some(ListState::new()) } else { None })
                .collect(),
        }
    }
    pub fn clear(&mut self) {
        for v in self.values.iter_mut() {
            *v = None;
        }
        for l in self.lists.iter_mut().flatten() {
            l.clear();
        }
    }
}

/// JSON text for a value in which every byte string and map key is a string literal carrying its bytes raw (only `"`,
/// `\` and control bytes escaped), so the text is not UTF-8 when the bytes are not. What a reader makes of it is for
/// the reader under comparison to say; the harness never predicts it.
pub fn raw_json(v: &MValue, out: &mut Vec<u8>) {
    fn raw_str(b: &[u8], out: &mut Vec<u8>) {
        out.push(b'"');
        for &c in b {
            match c {
                b'"' => out.extend_from_slice(b"\\\""),
                b'\\' => out.extend_from_slice(b"\\\\"),
                0..=0x1f => out.extend_from_slice(format!("\\u{:04x}", c).as_bytes()),
                _ => out.push(c),
            }
        }
        out.push(b'"');
    }
    match v {
        MValue::Bool(b) => out.extend_from_slice(if *b { b"true" } else { b"false" }),
        MValue::Int(i) => out.extend_from_slice(i.to_string().as_bytes()),
        MValue::Ip(a) => raw_str(a.to_string().as_bytes(), out),
        MValue::Bytes(b) => raw_str(b, out),
        MValue::Array(_, es) => {
            out.push(b'[');
            for (i, e) in es.iter().enumerate() {
                if i > 0 {
                    out.push(b',');
                }
                raw_json(e, out);
            }
            out.push(b']');
        }
        MValue::Map(_, es) => {
            out.push(b'{');
            for (i, (k, e)) in es.iter().enumerate() {
                if i > 0 {
                    out.push(b',');
                }
                raw_str(k, out);
                out.push(b':');
                raw_json(e, out);
            }
            out.push(b'}');
        }
    }
}
