//! Seams the simulator owns: process hooks, panic recorder, fault-injecting reader/writer, JSON entry
//! points, the SetList plug-in, harness functions, the node-granular SimCompiler.

use crate::kernel::{self, point};
use crate::model::{ListState, MType, SetVal};
use serde::Serialize;
use std::collections::BTreeMap;
use std::io::{self, Read, Write};
use std::sync::Mutex;
use wirefilter::{
    CompiledExpr, CompiledOneExpr, CompiledValueExpr, CompiledVecExpr, Compiler, ComparisonExpr, FunctionArgs,
    FunctionCallArgExpr, FunctionCallExpr, IndexExpr, LhsValue, ListDefinition, ListMatcher, LogicalExpr,
    SimpleFunctionArgKind, SimpleFunctionDefinition, SimpleFunctionImpl, SimpleFunctionOptParam, SimpleFunctionParam,
    Type,
};

// ------------------------------------------------------------------ per-run harness state

#[derive(Clone, Debug, PartialEq, Eq)]
pub struct CallRec {
    pub list_ty: MType,
    pub name: String,
    pub value: SetVal,
    pub task: Option<usize>,
}

#[derive(Clone, Copy, PartialEq, Eq, Debug)]
pub enum AnchorMode {
    /// let production's draw through untouched, do not record
    Off,
    /// the tape supplies the position
    Force,
    /// production's draw goes through and is recorded
    Observe,
    /// the harness supplies this position (coverage loops)
    Fixed(usize),
}

pub struct Harness {
    /// (site, remaining invocations before the panic fires, task it is armed for: None = any thread)
    pub fault_plan: Vec<(&'static str, u32, Option<usize>)>,
    pub fired: Vec<(Option<usize>, String)>,
    pub calls: Vec<CallRec>,
    pub fn_calls: u64,
    pub anchor_mode: AnchorMode,
    pub anchors: Vec<(usize, usize)>,
    pub panics: Vec<(String, String)>,
    pub run_tag: u64,
    /// caller-owned buffers handed to the C API during this run (poisoned after the call, freed at the next reset)
    pub arena: Vec<Box<[u8]>>,
    /// AST JSON -> hash the C API gave for it during this run
    pub hashes: std::collections::BTreeMap<String, u64>,
}

static HARNESS: Mutex<Harness> = Mutex::new(Harness {
    fault_plan: Vec::new(),
    fired: Vec::new(),
    calls: Vec::new(),
    fn_calls: 0,
    anchor_mode: AnchorMode::Off,
    anchors: Vec::new(),
    panics: Vec::new(),
    run_tag: 0,
    arena: Vec::new(),
    hashes: std::collections::BTreeMap::new(),
});

pub fn harness<R>(f: impl FnOnce(&mut Harness) -> R) -> R {
    let mut g = match HARNESS.lock() {
        Ok(g) => g,
        Err(p) => p.into_inner(),
    };
    f(&mut g)
}

pub fn reset(run_tag: u64) {
    harness(|h| {
        h.fault_plan.clear();
        h.fired.clear();
        h.calls.clear();
        h.fn_calls = 0;
        h.anchor_mode = AnchorMode::Force;
        h.anchors.clear();
        h.panics.clear();
        h.run_tag = run_tag;
        // every context of the previous run is gone by now
        h.arena.clear();
        h.hashes.clear();
    });
}

/// Arm a panic at the `nth` (1-based) next invocation of `site`. Armed from a simulator task it only
/// counts (and fires on) that task's invocations; armed from the main thread it applies to any thread.
pub fn arm_panic(site: &'static str, nth: u32) {
    let t = kernel::current_task();
    harness(|h| h.fault_plan.push((site, nth, t)));
}

/// Remove the calling task's (or, from the main thread, everybody's) armed faults.
pub fn disarm_all() {
    let t = kernel::current_task();
    harness(|h| match t {
        None => h.fault_plan.clear(),
        Some(_) => h.fault_plan.retain(|e| e.2 != t),
    });
}

pub const INJECTED: &str = "wfsim-injected-panic";

/// Every harness callback goes through here: scheduling point, then (maybe) the injected fault.
pub fn callback(site: &'static str) {
    point(site);
    let me = kernel::current_task();
    let fire = harness(|h| {
        let mut fire = None;
        for (i, (s, n, t)) in h.fault_plan.iter_mut().enumerate() {
            if *s == site && (t.is_none() || *t == me) {
                *n -= 1;
                if *n == 0 {
                    fire = Some(i);
                }
                break;
            }
        }
        if let Some(i) = fire {
            h.fault_plan.remove(i);
            let msg = format!("{INJECTED}:{site}:{}:{}", h.run_tag, h.fired.len());
            h.fired.push((me, msg.clone()));
            Some(msg)
        } else {
            None
        }
    });
    if let Some(msg) = fire {
        kernel::count("fault.panic");
        crate::tr!("  !! injected panic at {site}: {msg}");
        panic!("{}", msg);
    }
}

/// Messages of the injected panics that fired on the calling task (all of them from the main thread).
pub fn fired_panics() -> Vec<String> {
    let t = kernel::current_task();
    harness(|h| h.fired.iter().filter(|(ft, _)| t.is_none() || *ft == t).map(|(_, m)| m.clone()).collect())
}

pub fn take_calls() -> Vec<CallRec> {
    harness(|h| std::mem::take(&mut h.calls))
}

pub fn fn_calls() -> u64 {
    harness(|h| h.fn_calls)
}

/// What a C caller does with its own memory: the bytes are handed over in a private buffer which is
/// overwritten as soon as the call returns (and freed when the run is over). Anything the library kept a
/// pointer into, instead of copying, shows up as changed content afterwards.
pub fn with_caller_buffer<R>(bytes: &[u8], f: impl FnOnce(*const u8, usize) -> R) -> R {
    let mut buf: Box<[u8]> = bytes.into();
    let r = f(buf.as_ptr(), buf.len());
    for b in buf.iter_mut() {
        *b = b'#';
    }
    harness(|h| h.arena.push(buf));
    kernel::count("fault.caller_buffer_reused");
    r
}

/// Stable class for a panic message (digits and quoted parts dropped).
pub fn panic_class(msg: &str) -> String {
    let mut out = String::new();
    for c in msg.chars().take(60) {
        if c.is_ascii_digit() {
            if !out.ends_with('#') {
                out.push('#');
            }
        } else if c == '\n' {
            break;
        } else {
            out.push(c);
        }
    }
    out
}

// ------------------------------------------------------------------ process hooks

fn engine_point(site: wirefilter::verif::Site) {
    use wirefilter::verif::Site::*;
    let s = match site {
        SetHookAfterLoad => "set_hook.after_load",
        SetHookAfterTake => "set_hook.after_take",
        SetHookAfterSet => "set_hook.after_set",
        CatchAfterStart => "catch.after_start",
        CatchAfterUnwind => "catch.after_unwind",
        SetHookBeforeLock => "set_hook.before_lock",
        SetHookLockWait => {
            if kernel::current_task().is_some() {
                kernel::count("c19.install_lock_contended");
            }
            kernel::point_blocked("set_hook.lock_wait");
            return;
        }
    };
    crate::props::c19::on_engine_site(s);
    point(s);
}

fn anchor_hook(len: usize, drawn: usize) -> usize {
    let mode = harness(|h| h.anchor_mode);
    let pos = match mode {
        AnchorMode::Off => return drawn,
        AnchorMode::Force => 1 + kernel::choose_side(len - 1, "anchor"),
        AnchorMode::Observe => {
            // record-and-replay of an uncontrolled source: the draw goes on the tape as an observed input
            // (replay forces the recorded value)
            1 + kernel::observe(drawn.saturating_sub(1), len.max(2) - 1 + 1, "obs:anchor")
        }
        AnchorMode::Fixed(p) => p,
    };
    harness(|h| h.anchors.push((len, pos)));
    pos
}

/// Quiet panic hook: records (thread, message), prints nothing.
pub fn install_quiet_hook() {
    std::panic::set_hook(Box::new(|info| {
        let msg = if let Some(s) = info.payload().downcast_ref::<&str>() {
            s.to_string()
        } else if let Some(s) = info.payload().downcast_ref::<String>() {
            s.clone()
        } else {
            "<unknown>".to_string()
        };
        let th = std::thread::current().name().unwrap_or("<unnamed>").to_string();
        let loc = info.location().map(|l| format!(" at {}:{}", l.file(), l.line())).unwrap_or_default();
        harness(|h| {
            if h.panics.len() < 64 {
                h.panics.push((th, format!("{msg}{loc}")));
            }
        });
    }));
}

pub fn install_process_hooks() {
    wirefilter::verif::install(wirefilter::verif::Hooks {
        point: engine_point,
        anchor: anchor_hook,
    });
    install_quiet_hook();
}

// ------------------------------------------------------------------ fault-injecting reader / writer

#[derive(Clone, Copy, Debug, PartialEq, Eq)]
pub enum Hard {
    None,
    IoErr(usize),
    Eof(usize),
}

#[derive(Clone, Debug)]
pub struct ReadPlan {
    /// return `Interrupted` once before delivering the byte at each of these offsets
    pub eintr_at: Vec<usize>,
    /// deliver at most this many bytes per `read` call (0 = unlimited)
    pub max_chunk: usize,
    pub hard: Hard,
}

impl ReadPlan {
    pub fn clean() -> Self {
        ReadPlan {
            eintr_at: Vec::new(),
            max_chunk: 0,
            hard: Hard::None,
        }
    }
}

pub struct FaultyReader<'a> {
    data: &'a [u8],
    pos: usize,
    plan: ReadPlan,
    pub eintr_fired: u64,
    pub short_fired: u64,
    pub hard_fired: bool,
}

impl<'a> FaultyReader<'a> {
    pub fn new(data: &'a [u8], mut plan: ReadPlan) -> Self {
        plan.eintr_at.sort();
        plan.eintr_at.dedup();
        FaultyReader {
            data,
            pos: 0,
            plan,
            eintr_fired: 0,
            short_fired: 0,
            hard_fired: false,
        }
    }
}

impl Read for FaultyReader<'_> {
    fn read(&mut self, buf: &mut [u8]) -> io::Result<usize> {
        if buf.is_empty() {
            return Ok(0);
        }
        if let Some(i) = self.plan.eintr_at.iter().position(|o| *o == self.pos) {
            self.plan.eintr_at.remove(i);
            self.eintr_fired += 1;
            return Err(io::Error::new(io::ErrorKind::Interrupted, "injected EINTR"));
        }
        let mut limit = self.data.len();
        match self.plan.hard {
            Hard::IoErr(k) => {
                if self.pos >= k {
                    self.hard_fired = true;
                    return Err(io::Error::other("injected I/O error"));
                }
                limit = limit.min(k);
            }
            Hard::Eof(k) => {
                if self.pos >= k {
                    self.hard_fired = true;
                    return Ok(0);
                }
                limit = limit.min(k);
            }
            Hard::None => {}
        }
        // never step over a pending EINTR offset
        if let Some(next) = self.plan.eintr_at.iter().find(|o| **o > self.pos) {
            limit = limit.min(*next);
        }
        let mut n = (limit - self.pos).min(buf.len());
        if self.plan.max_chunk > 0 && n > self.plan.max_chunk {
            n = self.plan.max_chunk;
            self.short_fired += 1;
        }
        buf[..n].copy_from_slice(&self.data[self.pos..self.pos + n]);
        self.pos += n;
        Ok(n)
    }
}

#[derive(Clone, Debug)]
pub struct WritePlan {
    /// return `Interrupted` on these write-call indices
    pub eintr_calls: Vec<usize>,
    /// accept at most this many bytes per call (0 = unlimited)
    pub max_chunk: usize,
    /// hard error once this many bytes were accepted
    pub fail_at: Option<usize>,
}

impl WritePlan {
    pub fn clean() -> Self {
        WritePlan {
            eintr_calls: Vec::new(),
            max_chunk: 0,
            fail_at: None,
        }
    }
}

pub struct FaultyWriter {
    pub out: Vec<u8>,
    plan: WritePlan,
    calls: usize,
    pub eintr_fired: u64,
    pub short_fired: u64,
    pub hard_fired: bool,
}

impl FaultyWriter {
    pub fn new(plan: WritePlan) -> Self {
        FaultyWriter {
            out: Vec::new(),
            plan,
            calls: 0,
            eintr_fired: 0,
            short_fired: 0,
            hard_fired: false,
        }
    }
}

impl Write for FaultyWriter {
    fn write(&mut self, buf: &[u8]) -> io::Result<usize> {
        let call = self.calls;
        self.calls += 1;
        if self.plan.eintr_calls.contains(&call) {
            self.eintr_fired += 1;
            return Err(io::Error::new(io::ErrorKind::Interrupted, "injected EINTR"));
        }
        let mut n = buf.len();
        if let Some(k) = self.plan.fail_at {
            if self.out.len() >= k {
                self.hard_fired = true;
                return Err(io::Error::other("injected write error (disk full)"));
            }
            n = n.min(k - self.out.len());
        }
        if self.plan.max_chunk > 0 && n > self.plan.max_chunk {
            n = self.plan.max_chunk;
            self.short_fired += 1;
        }
        self.out.extend_from_slice(&buf[..n]);
        Ok(n)
    }
    fn flush(&mut self) -> io::Result<()> {
        Ok(())
    }
}

// ------------------------------------------------------------------ JSON entry points

#[derive(Clone, Copy, Debug, PartialEq, Eq)]
pub enum Entry {
    Str,
    Slice,
    Reader,
    BufReader,
    Value,
}

impl Entry {
    pub const ALL: [Entry; 5] = [Entry::Str, Entry::Slice, Entry::Reader, Entry::BufReader, Entry::Value];
    pub fn name(self) -> &'static str {
        match self {
            Entry::Str => "from_str",
            Entry::Slice => "from_slice",
            Entry::Reader => "from_reader",
            Entry::BufReader => "from_reader(BufReader)",
            Entry::Value => "value-tree",
        }
    }
    pub fn is_stream(self) -> bool {
        matches!(self, Entry::Reader | Entry::BufReader)
    }
}

/// Run `$body` with `$de` bound to a serde `Deserializer` over `$bytes` obtained through `$entry`.
/// Text entry points call `end()` afterwards so a half-consumed document cannot pass.
/// Evaluates to `Result<T, String>`; the reader's fault counters are reported through `$stats`.
#[macro_export]
macro_rules! with_de {
    ($entry:expr, $bytes:expr, $plan:expr, $stats:expr, |$de:ident| $body:expr) => {{
        use $crate::seams::Entry;
        match $entry {
            Entry::Str => match std::str::from_utf8($bytes) {
                Ok(s) => {
                    let mut d = serde_json::Deserializer::from_str(s);
                    let r = {
                        let $de = &mut d;
                        $body
                    };
                    r.map_err(|e| e.to_string())
                        .and_then(|x| d.end().map(|_| x).map_err(|e| format!("trailing: {e}")))
                }
                Err(e) => Err(format!("not utf-8: {e}")),
            },
            Entry::Slice => {
                let mut d = serde_json::Deserializer::from_slice($bytes);
                let r = {
                    let $de = &mut d;
                    $body
                };
                r.map_err(|e| e.to_string())
                    .and_then(|x| d.end().map(|_| x).map_err(|e| format!("trailing: {e}")))
            }
            Entry::Reader => {
                let mut rd = $crate::seams::FaultyReader::new($bytes, $plan.clone());
                let res = {
                    let mut d = serde_json::Deserializer::from_reader(&mut rd);
                    let r = {
                        let $de = &mut d;
                        $body
                    };
                    r.map_err(|e| e.to_string())
                        .and_then(|x| d.end().map(|_| x).map_err(|e| format!("trailing: {e}")))
                };
                $stats.absorb(&rd);
                res
            }
            Entry::BufReader => {
                let mut rd = $crate::seams::FaultyReader::new($bytes, $plan.clone());
                let res = {
                    let mut d = serde_json::Deserializer::from_reader(std::io::BufReader::with_capacity(7, &mut rd));
                    let r = {
                        let $de = &mut d;
                        $body
                    };
                    r.map_err(|e| e.to_string())
                        .and_then(|x| d.end().map(|_| x).map_err(|e| format!("trailing: {e}")))
                };
                $stats.absorb(&rd);
                res
            }
            Entry::Value => match serde_json::from_slice::<serde_json::Value>($bytes) {
                Ok(v) => {
                    let $de = v;
                    let r = $body;
                    r.map_err(|e| e.to_string())
                }
                Err(e) => Err(format!("value-tree parse: {e}")),
            },
        }
    }};
}

#[derive(Default, Debug, Clone, Copy)]
pub struct IoStats {
    pub eintr: u64,
    pub short: u64,
    pub hard: bool,
}

impl IoStats {
    pub fn absorb(&mut self, r: &FaultyReader<'_>) {
        self.eintr += r.eintr_fired;
        self.short += r.short_fired;
        self.hard |= r.hard_fired;
    }
    pub fn flush_counters(&self) {
        if self.eintr > 0 {
            kernel::count_n("fault.eintr", self.eintr);
        }
        if self.short > 0 {
            kernel::count_n("fault.short", self.short);
        }
    }
}

// ------------------------------------------------------------------ SetList plug-in (S3)

#[derive(Debug)]
pub struct SetListDef {
    pub ty: MType,
}

#[derive(Debug, PartialEq)]
pub struct SetMatcher {
    pub ty: MType,
    pub sets: ListState,
}

impl Clone for SetMatcher {
    fn clone(&self) -> Self {
        callback("list.clone");
        SetMatcher {
            ty: self.ty.clone(),
            sets: self.sets.clone(),
        }
    }
}

impl Serialize for SetMatcher {
    fn serialize<S: serde::Serializer>(&self, serializer: S) -> Result<S::Ok, S::Error> {
        callback("list.serialize");
        let m: BTreeMap<&String, Vec<String>> = self
            .sets
            .iter()
            .map(|(k, v)| (k, v.iter().map(|x| x.encode()).collect()))
            .collect();
        m.serialize(serializer)
    }
}

fn setval_fits(v: &SetVal, ty: &MType) -> bool {
    matches!(
        (v, ty),
        (SetVal::Int(_), MType::Int) | (SetVal::Ip(_), MType::Ip) | (SetVal::Bytes(_), MType::Bytes) | (SetVal::Other(_), _)
    )
}

impl ListDefinition for SetListDef {
    fn deserialize_matcher<'de>(
        &self,
        ty: Type,
        deserializer: &mut dyn erased_serde::Deserializer<'de>,
    ) -> Result<Box<dyn ListMatcher>, erased_serde::Error> {
        callback("list.deserialize");
        use serde::de::Error;
        let mty = MType::from_type(ty);
        if mty != self.ty {
            return Err(erased_serde::Error::custom(format!(
                "SetList for {:?} asked to deserialize a matcher for {:?}",
                self.ty, mty
            )));
        }
        let raw = erased_serde::deserialize::<BTreeMap<String, Vec<String>>>(deserializer)?;
        let mut sets = ListState::new();
        for (k, vals) in raw {
            let mut s = std::collections::BTreeSet::new();
            for v in vals {
                match SetVal::decode(&v) {
                    Some(sv) if setval_fits(&sv, &mty) => {
                        s.insert(sv);
                    }
                    _ => return Err(erased_serde::Error::custom(format!("bad set member {v:?} for {mty:?}"))),
                }
            }
            sets.insert(k, s);
        }
        Ok(Box::new(SetMatcher { ty: mty, sets }))
    }

    fn new_matcher(&self) -> Box<dyn ListMatcher> {
        callback("list.new_matcher");
        Box::new(SetMatcher {
            ty: self.ty.clone(),
            sets: ListState::new(),
        })
    }
}

impl ListMatcher for SetMatcher {
    fn match_value(&self, list_name: &str, val: &LhsValue<'_>) -> bool {
        callback("list.match");
        let sv = SetVal::from_lhs(val);
        harness(|h| {
            h.calls.push(CallRec {
                list_ty: self.ty.clone(),
                name: list_name.to_string(),
                value: sv.clone(),
                task: kernel::current_task(),
            })
        });
        self.sets.get(list_name).is_some_and(|s| s.contains(&sv))
    }

    fn clear(&mut self) {
        callback("list.clear");
        self.sets.clear();
    }
}

// ------------------------------------------------------------------ harness functions (S2)

fn first_bytes<'a>(args: FunctionArgs<'_, 'a>) -> Option<wirefilter::Bytes<'a>> {
    match args.next()? {
        Ok(LhsValue::Bytes(b)) => Some(b),
        _ => None,
    }
}

fn note_fn() {
    harness(|h| h.fn_calls += 1);
}

fn f_echo<'a>(args: FunctionArgs<'_, 'a>) -> Option<LhsValue<'a>> {
    callback("fn.echo");
    note_fn();
    first_bytes(args).map(LhsValue::Bytes)
}

fn f_boom<'a>(args: FunctionArgs<'_, 'a>) -> Option<LhsValue<'a>> {
    callback("fn.boom");
    note_fn();
    first_bytes(args).map(LhsValue::Bytes)
}

fn f_lower<'a>(args: FunctionArgs<'_, 'a>) -> Option<LhsValue<'a>> {
    callback("fn.lower");
    note_fn();
    first_bytes(args).map(|b| LhsValue::Bytes(b.to_ascii_lowercase().into()))
}

fn f_len<'a>(args: FunctionArgs<'_, 'a>) -> Option<LhsValue<'a>> {
    callback("fn.len");
    note_fn();
    first_bytes(args).map(|b| LhsValue::Int(b.len() as i64))
}

fn f_join<'a>(args: FunctionArgs<'_, 'a>) -> Option<LhsValue<'a>> {
    callback("fn.join");
    note_fn();
    let mut out = Vec::new();
    let mut first = true;
    for a in args {
        match a {
            Ok(LhsValue::Bytes(b)) => out.extend_from_slice(&b),
            _ if first => return None,
            _ => {}
        }
        first = false;
    }
    Some(LhsValue::Bytes(out.into()))
}

fn f_ident_int<'a>(args: FunctionArgs<'_, 'a>) -> Option<LhsValue<'a>> {
    callback("fn.idint");
    note_fn();
    match args.next()? {
        Ok(LhsValue::Int(i)) => Some(LhsValue::Int(i)),
        _ => None,
    }
}

fn f_ident_ip<'a>(args: FunctionArgs<'_, 'a>) -> Option<LhsValue<'a>> {
    callback("fn.idip");
    note_fn();
    match args.next()? {
        Ok(LhsValue::Ip(i)) => Some(LhsValue::Ip(i)),
        _ => None,
    }
}

fn simple(params: Vec<Type>, opt: Vec<LhsValue<'static>>, ret: Type, f: for<'i, 'a> fn(FunctionArgs<'i, 'a>) -> Option<LhsValue<'a>>) -> SimpleFunctionDefinition {
    SimpleFunctionDefinition {
        params: params
            .into_iter()
            .map(|t| SimpleFunctionParam {
                arg_kind: SimpleFunctionArgKind::Field,
                val_type: t,
            })
            .collect(),
        opt_params: opt
            .into_iter()
            .map(|v| SimpleFunctionOptParam {
                arg_kind: SimpleFunctionArgKind::Both,
                default_value: v,
            })
            .collect(),
        return_type: ret,
        implementation: SimpleFunctionImpl::new(f),
    }
}

/// A function definition whose parse-time and compile-time callbacks are scheduling + fault points too.
#[derive(Debug)]
pub struct HookedFn(pub SimpleFunctionDefinition);

impl wirefilter::FunctionDefinition for HookedFn {
    fn check_param(
        &self,
        settings: &wirefilter::ParserSettings,
        params: &mut dyn ExactSizeIterator<Item = wirefilter::FunctionParam<'_>>,
        next_param: &wirefilter::FunctionParam<'_>,
        ctx: Option<&mut wirefilter::FunctionDefinitionContext>,
    ) -> Result<(), wirefilter::FunctionParamError> {
        callback("fn.check_param");
        self.0.check_param(settings, params, next_param, ctx)
    }

    fn return_type(&self, params: &mut dyn ExactSizeIterator<Item = wirefilter::FunctionParam<'_>>, ctx: Option<&wirefilter::FunctionDefinitionContext>) -> Type {
        self.0.return_type(params, ctx)
    }

    fn arg_count(&self) -> (usize, Option<usize>) {
        self.0.arg_count()
    }

    fn compile(&self, params: &mut dyn ExactSizeIterator<Item = wirefilter::FunctionParam<'_>>, ctx: Option<wirefilter::FunctionDefinitionContext>) -> wirefilter::CompiledFunction {
        callback("fn.compile");
        self.0.compile(params, ctx)
    }
}

pub const FUNCTIONS: &[&str] = &["echo", "boom", "lower", "len", "join", "idint", "idip"];

pub fn function_def(name: &str) -> SimpleFunctionDefinition {
    match name {
        "echo" => simple(vec![Type::Bytes], vec![], Type::Bytes, f_echo),
        "boom" => simple(vec![Type::Bytes], vec![], Type::Bytes, f_boom),
        "lower" => simple(vec![Type::Bytes], vec![], Type::Bytes, f_lower),
        "len" => simple(vec![Type::Bytes], vec![], Type::Int, f_len),
        "join" => simple(
            vec![Type::Bytes],
            vec![LhsValue::Bytes((&b"-"[..]).to_vec().into()), LhsValue::Bytes(Vec::new().into())],
            Type::Bytes,
            f_join,
        ),
        "idint" => simple(vec![Type::Int], vec![], Type::Int, f_ident_int),
        "idip" => simple(vec![Type::Ip], vec![], Type::Ip, f_ident_ip),
        other => panic!("unknown harness function {other}"),
    }
}

// ------------------------------------------------------------------ SimCompiler (S1): node entry = scheduling point

#[derive(Default)]
pub struct SimCompiler;

fn wrap_expr(site: &'static str, e: CompiledExpr<()>) -> CompiledExpr<()> {
    match e {
        CompiledExpr::One(o) => CompiledExpr::One(CompiledOneExpr::new(move |ctx| {
            point(site);
            o.execute(ctx)
        })),
        CompiledExpr::Vec(v) => CompiledExpr::Vec(CompiledVecExpr::new(move |ctx| {
            point(site);
            v.execute(ctx)
        })),
    }
}

fn wrap_value(site: &'static str, e: CompiledValueExpr<()>) -> CompiledValueExpr<()> {
    CompiledValueExpr::new(move |ctx| {
        point(site);
        e.execute(ctx)
    })
}

impl Compiler for SimCompiler {
    type U = ();

    fn compile_logical_expr(&mut self, node: LogicalExpr) -> CompiledExpr<()> {
        wrap_expr("n.logical", self.compile_expr(node))
    }
    fn compile_comparison_expr(&mut self, node: ComparisonExpr) -> CompiledExpr<()> {
        wrap_expr("n.cmp", self.compile_expr(node))
    }
    fn compile_function_call_expr(&mut self, node: FunctionCallExpr) -> CompiledValueExpr<()> {
        wrap_value("n.call", self.compile_value_expr(node))
    }
    fn compile_function_call_arg_expr(&mut self, node: FunctionCallArgExpr) -> CompiledValueExpr<()> {
        wrap_value("n.arg", self.compile_value_expr(node))
    }
    fn compile_index_expr(&mut self, node: IndexExpr) -> CompiledValueExpr<()> {
        wrap_value("n.index", self.compile_value_expr(node))
    }
}
