#![allow(dead_code)]
mod driver;
mod wgen;
mod jdoc;
mod kernel;
mod miri;
mod model;
mod props;
mod refjson;
mod rng;
mod seams;

use driver::Tier;

fn usage() -> ! {
    eprintln!("usage: wfsim run <ID> <quick|thorough> | replay <file> | worker … | eval …");
    std::process::exit(2);
}

fn main() {
    let args: Vec<String> = std::env::args().skip(1).collect();
    if args.is_empty() {
        usage();
    }
    match args[0].as_str() {
        "run" => {
            let Some(prop) = args.get(1).and_then(|id| props::lookup(id)) else { usage() };
            let tier = Tier::parse(args.get(2).map(|s| s.as_str()).unwrap_or("quick"));
            std::process::exit(driver::driver_main(prop, tier));
        }
        "worker" => {
            let Some(prop) = args.get(1).and_then(|id| props::lookup(id)) else { usage() };
            driver::worker_main(prop, &args[2..]);
        }
        "eval" => {
            let Some(prop) = args.get(1).and_then(|id| props::lookup(id)) else { usage() };
            driver::eval_main(prop, &args[2..]);
        }
        "history" => {
            let Some(prop) = args.get(1).and_then(|id| props::lookup(id)) else { usage() };
            driver::history_main(prop, &args[2..]);
        }
        "crosscheck" => {
            let Some(prop) = args.get(1).and_then(|id| props::lookup(id)) else { usage() };
            let tier = Tier::parse(args.get(2).map(|s| s.as_str()).unwrap_or("quick"));
            let seed: u64 = args.get(3).and_then(|s| s.parse().ok()).unwrap_or(1);
            let run: u64 = args.get(4).and_then(|s| s.parse().ok()).unwrap_or(0);
            let (c, why) = driver::crosscheck_explained(prop, tier, seed, run);
            println!("(simd, forward) {:?}\n(simd, reverse) {:?}\n(scalar, forward) {:?}", c[0], c[1], c[2]);
            for l in why {
                println!("{l}");
            }
            std::process::exit(if c[0] == c[1] && c[0] == c[2] { 0 } else { 1 });
        }
        "replay" => {
            let Some(file) = args.get(1) else { usage() };
            std::process::exit(driver::replay_main(props::lookup, file));
        }
        _ => usage(),
    }
}
