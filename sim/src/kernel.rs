//! The simulation kernel: choice tape, one-baton scheduler over real (parked) OS threads,
//! event log, counters. One run at a time per process.

use crate::rng::{FNV_OFFSET, Xoshiro, fnv_bytes, fnv_u64};
use std::cell::Cell;
use std::collections::BTreeMap;
use std::panic::{AssertUnwindSafe, catch_unwind};
use std::sync::atomic::{AtomicBool, AtomicUsize, Ordering};
use std::sync::{Mutex, MutexGuard};
use std::thread::Thread;
use std::time::{Duration, Instant};

pub const MAIN: usize = usize::MAX;

static CURRENT: AtomicUsize = AtomicUsize::new(MAIN);
static TRACING: AtomicBool = AtomicBool::new(false);
static KERNEL: Mutex<Option<Kernel>> = Mutex::new(None);

thread_local! {
    static TASK: Cell<usize> = const { Cell::new(MAIN) };
}

#[derive(Clone, Debug, PartialEq, Eq)]
pub struct Violation {
    /// e.g. "C14/roundtrip-not-equal"
    pub invariant: String,
    /// stable class of the failing input / call site; part of the signature
    pub class: String,
    /// free-form detail (expected vs observed); not part of the signature
    pub detail: String,
}

impl Violation {
    pub fn new(invariant: &str, class: impl Into<String>, detail: impl Into<String>) -> Self {
        Violation {
            invariant: invariant.to_string(),
            class: class.into(),
            detail: detail.into(),
        }
    }
    pub fn signature(&self) -> String {
        if self.class.is_empty() {
            self.invariant.clone()
        } else {
            format!("{}:{}", self.invariant, self.class)
        }
    }
}

pub enum Mode {
    Search { seed: u64, forced: Vec<u32> },
    Replay { tape: Vec<u32> },
}

#[derive(Clone, Copy, PartialEq, Eq, Debug)]
enum TaskState {
    Runnable,
    Blocked,
    Finished,
}

#[derive(Clone, Copy, PartialEq, Eq, Debug)]
enum Sched {
    Sticky(u32),
    Uniform,
    RoundRobin,
    Pct,
}

struct TaskSlot {
    thread: Thread,
    state: TaskState,
    prio: i64,
    last_site: &'static str,
}

pub struct Kernel {
    rng: Xoshiro,
    /// side stream: choices that only some code paths make (the SIMD anchor) must not shift the main stream,
    /// or paired worker processes (SIMD / scalar) would stop executing the same workload
    rng2: Xoshiro,
    pub result_digest: Option<u64>,
    replay: Option<Vec<u32>>,
    forced: Vec<u32>,
    pos: usize,
    pub record: Vec<(&'static str, u32, u32)>,
    // scheduling
    tasks: Vec<TaskSlot>,
    sched: Sched,
    pct_changes: Vec<u64>,
    pct_low: i64,
    main_thread: Option<Thread>,
    barrier_arrived: usize,
    // log
    pub steps: u64,
    pub switches: u64,
    sched_hash: u64,
    switch_sig: u64,
    pub trace: Vec<String>,
    pub counters: BTreeMap<&'static str, u64>,
    pub violation: Option<Violation>,
    pub sample: Option<serde_json::Value>,
    pub nontrivial: bool,
}

fn lock() -> MutexGuard<'static, Option<Kernel>> {
    match KERNEL.lock() {
        Ok(g) => g,
        Err(p) => p.into_inner(),
    }
}

fn with<R>(f: impl FnOnce(&mut Kernel) -> R) -> R {
    let mut g = lock();
    f(g.as_mut().expect("no run in progress"))
}

/// When WFSIM_TAPE_LOG names a file, every tape value is appended to it with an unbuffered write as it is
/// chosen: the tape of a run that kills its process can then be recovered (and minimised) by the driver.
fn tape_log(v: u32) {
    use std::io::Write;
    use std::sync::OnceLock;
    static LOG: OnceLock<Option<Mutex<std::fs::File>>> = OnceLock::new();
    let log = LOG.get_or_init(|| {
        std::env::var_os("WFSIM_TAPE_LOG").and_then(|p| std::fs::OpenOptions::new().create(true).append(true).open(p).ok()).map(Mutex::new)
    });
    if let Some(f) = log {
        if let Ok(mut f) = f.lock() {
            let _ = f.write_all(format!("{v}\n").as_bytes());
        }
    }
}

pub struct RunRecord {
    pub result_digest: Option<u64>,
    pub tape: Vec<(&'static str, u32, u32)>,
    pub tape_hash: u64,
    pub sched_hash: u64,
    pub switch_sig: u64,
    pub steps: u64,
    pub switches: u64,
    pub counters: BTreeMap<&'static str, u64>,
    pub violation: Option<Violation>,
    pub trace: Vec<String>,
    pub sample: Option<serde_json::Value>,
    pub nontrivial: bool,
}

pub fn begin_run(mode: Mode, tracing: bool) {
    TRACING.store(tracing, Ordering::SeqCst);
    CURRENT.store(MAIN, Ordering::SeqCst);
    let (rng, rng2, replay, forced) = match mode {
        Mode::Search { seed, forced } => (Xoshiro::new(seed), Xoshiro::new(seed ^ 0x5151_5151_a5a5_a5a5), None, forced),
        Mode::Replay { tape } => (Xoshiro::new(0), Xoshiro::new(0), Some(tape), Vec::new()),
    };
    *lock() = Some(Kernel {
        rng,
        rng2,
        result_digest: None,
        replay,
        forced,
        pos: 0,
        record: Vec::new(),
        tasks: Vec::new(),
        sched: Sched::Uniform,
        pct_changes: Vec::new(),
        pct_low: 0,
        main_thread: None,
        barrier_arrived: 0,
        steps: 0,
        switches: 0,
        sched_hash: FNV_OFFSET,
        switch_sig: 0,
        trace: Vec::new(),
        counters: BTreeMap::new(),
        violation: None,
        sample: None,
        nontrivial: false,
    });
}

pub fn end_run() -> RunRecord {
    let k = lock().take().expect("no run in progress");
    let mut h = FNV_OFFSET;
    for (l, n, v) in &k.record {
        if l.starts_with("obs:") {
            continue;
        }
        h = fnv_u64(h, ((*n as u64) << 32) | *v as u64);
    }
    RunRecord {
        result_digest: k.result_digest,
        tape: k.record,
        tape_hash: h,
        sched_hash: k.sched_hash,
        switch_sig: k.switch_sig,
        steps: k.steps,
        switches: k.switches,
        counters: k.counters,
        violation: k.violation,
        trace: k.trace,
        sample: k.sample,
        nontrivial: k.nontrivial,
    }
}

impl Kernel {
    fn choose(&mut self, n: u32, label: &'static str, weights: Option<&[u32]>) -> u32 {
        debug_assert!(n >= 1);
        if n <= 1 {
            return 0;
        }
        let v = if let Some(t) = &self.replay {
            let v = t.get(self.pos).copied().unwrap_or(0);
            if v >= n { 0 } else { v }
        } else if self.pos < self.forced.len() {
            // forced prefix still consumes the PRNG so that the suffix does not depend on the prefix length
            let _ = self.rng.next();
            self.forced[self.pos] % n
        } else {
            match weights {
                None => self.rng.below(n),
                Some(w) => {
                    let total: u32 = w.iter().sum();
                    let mut x = self.rng.below(total.max(1));
                    let mut idx = 0;
                    for (i, wi) in w.iter().enumerate() {
                        if x < *wi {
                            idx = i as u32;
                            break;
                        }
                        x -= *wi;
                    }
                    idx
                }
            }
        };
        self.pos += 1;
        self.record.push((label, n, v));
        tape_log(v);
        v
    }

    fn runnable_from(&self, me: usize) -> Vec<usize> {
        // `me` first if runnable, then the others in cyclic order after `me`
        let n = self.tasks.len();
        let mut out = Vec::with_capacity(n);
        if me < n && self.tasks[me].state == TaskState::Runnable {
            out.push(me);
        }
        let start = if me < n { me + 1 } else { 0 };
        for d in 0..n {
            let i = (start + d) % n;
            if i != me && self.tasks[i].state == TaskState::Runnable {
                out.push(i);
            }
        }
        out
    }

    /// Decide who runs next. `me` may be MAIN (initial dispatch) or a finished task.
    fn pick_next(&mut self, me: usize) -> Option<usize> {
        let list = self.runnable_from(me);
        if list.is_empty() {
            return None;
        }
        let me_runnable = list[0] == me;
        let k = list.len() as u32;
        let idx = match self.sched {
            Sched::Uniform => self.choose(k, "sched", None),
            Sched::Sticky(den) => {
                if me_runnable {
                    if k > 1 {
                        let w = [den - 1, 1];
                        if self.choose(2, "sched.sw", Some(&w)) == 1 {
                            1 + self.choose(k - 1, "sched.to", None)
                        } else {
                            0
                        }
                    } else {
                        0
                    }
                } else {
                    self.choose(k, "sched", None)
                }
            }
            Sched::RoundRobin => {
                if me_runnable && k > 1 {
                    1
                } else {
                    0
                }
            }
            Sched::Pct => {
                if me_runnable && self.pct_changes.contains(&self.steps) {
                    self.pct_low -= 1;
                    self.tasks[me].prio = self.pct_low;
                }
                let mut best = 0usize;
                for (i, t) in list.iter().enumerate() {
                    if self.tasks[*t].prio > self.tasks[list[best]].prio {
                        best = i;
                    }
                }
                best as u32
            }
        };
        Some(list[idx as usize])
    }
}

impl Kernel {
    /// Release the barrier if every unfinished task has arrived.
    fn maybe_release_barrier(&mut self) {
        let unfinished = self.tasks.iter().filter(|t| t.state != TaskState::Finished).count();
        if self.barrier_arrived > 0 && self.barrier_arrived >= unfinished {
            for t in self.tasks.iter_mut() {
                if t.state == TaskState::Blocked {
                    t.state = TaskState::Runnable;
                }
            }
            self.barrier_arrived = 0;
        }
    }
}

/// Simulated barrier over all unfinished tasks of the current `run_tasks` phase.
pub fn barrier() {
    let me = TASK.with(|t| t.get());
    if me == MAIN {
        return;
    }
    let handoff = {
        let mut g = lock();
        let k = g.as_mut().expect("no run in progress");
        k.steps += 1;
        k.sched_hash = fnv_bytes(fnv_u64(k.sched_hash, me as u64), b"<barrier>");
        k.tasks[me].last_site = "<barrier>";
        k.tasks[me].state = TaskState::Blocked;
        k.barrier_arrived += 1;
        k.maybe_release_barrier();
        match k.pick_next(me) {
            Some(next) if next != me => Some((next, k.tasks[next].thread.clone())),
            Some(_) => None,
            None => {
                eprintln!("HARNESS-ERROR: barrier deadlock");
                std::process::exit(2);
            }
        }
    };
    if let Some((next, th)) = handoff {
        hand_to(next, th);
        wait_for_baton(me);
    }
}

// ---------------------------------------------------------------- public API

/// A tape-recorded choice in 0..n. 0 must be the simplest alternative.
pub fn choose(n: usize, label: &'static str) -> usize {
    if n <= 1 {
        return 0;
    }
    with(|k| k.choose(n as u32, label, None)) as usize
}

/// A tape-recorded choice drawn from the *side* stream (see `Kernel::rng2`).
pub fn choose_side(n: usize, label: &'static str) -> usize {
    if n <= 1 {
        return 0;
    }
    with(|k| {
        let n = n as u32;
        let v = if let Some(t) = &k.replay {
            let v = t.get(k.pos).copied().unwrap_or(0);
            if v >= n { 0 } else { v }
        } else {
            k.rng2.below(n)
        };
        k.pos += 1;
        k.record.push((label, n, v));
        tape_log(v);
        v as usize
    })
}

/// Digest of everything the run computed that must not depend on the process it ran in.
pub fn set_result_digest(d: u64) {
    with(|k| k.result_digest = Some(d));
}

/// An observed (uncontrolled) input: in search mode the observed value is recorded on the tape, in
/// replay mode the recorded value is returned instead (forced). `n` bounds the value (exclusive).
/// Labels must start with "obs:"; such entries are excluded from the event-log digest.
pub fn observe(value: usize, n: usize, label: &'static str) -> usize {
    with(|k| {
        let v = if let Some(t) = &k.replay {
            let v = t.get(k.pos).copied().unwrap_or(0);
            v as usize
        } else {
            value
        };
        k.pos += 1;
        k.record.push((label, n as u32, v as u32));
        tape_log(v as u32);
        v
    })
}

/// Weighted choice (weights only shape the search distribution; the tape stores the index).
pub fn choose_w(weights: &[u32], label: &'static str) -> usize {
    if weights.len() <= 1 {
        return 0;
    }
    with(|k| k.choose(weights.len() as u32, label, Some(weights))) as usize
}

/// True with probability num/den in search mode; tape value 0 = false.
pub fn chance(num: u32, den: u32, label: &'static str) -> bool {
    let w = [den - num.min(den), num.min(den)];
    with(|k| k.choose(2, label, Some(&w))) == 1
}

/// Inclusive range lo..=hi, lo is the simplest.
pub fn range(lo: usize, hi: usize, label: &'static str) -> usize {
    lo + choose(hi - lo + 1, label)
}

pub fn pick<'a, T>(items: &'a [T], label: &'static str) -> &'a T {
    &items[choose(items.len(), label)]
}

pub fn count(name: &'static str) {
    with(|k| *k.counters.entry(name).or_insert(0) += 1);
}

pub fn count_n(name: &'static str, n: u64) {
    with(|k| *k.counters.entry(name).or_insert(0) += n);
}

pub fn counter(name: &'static str) -> u64 {
    with(|k| k.counters.get(name).copied().unwrap_or(0))
}

pub fn set_nontrivial() {
    with(|k| k.nontrivial = true);
}

pub fn tracing() -> bool {
    TRACING.load(Ordering::Relaxed)
}

pub fn trace_line(s: String) {
    if std::env::var_os("WFSIM_LIVE").is_some() {
        eprintln!("[trace] {s}");
    }
    with(|k| k.trace.push(s));
}

#[macro_export]
macro_rules! tr {
    ($($arg:tt)*) => {
        if $crate::kernel::tracing() {
            $crate::kernel::trace_line(format!($($arg)*));
        }
    };
}

pub fn set_sample(f: impl FnOnce() -> serde_json::Value) {
    with(|k| {
        if k.sample.is_none() {
            k.sample = Some(f());
        }
    });
}

/// Record the first violation of the run.
pub fn fail(v: Violation) {
    with(|k| {
        if k.violation.is_none() {
            if TRACING.load(Ordering::Relaxed) {
                k.trace
                    .push(format!("VIOLATION {} :: {}", v.signature(), v.detail));
            }
            k.violation = Some(v);
        }
    });
}

pub fn failed() -> bool {
    with(|k| k.violation.is_some())
}

pub fn current_task() -> Option<usize> {
    let t = TASK.with(|t| t.get());
    if t == MAIN { None } else { Some(t) }
}

fn wait_for_baton(me: usize) {
    let start = Instant::now();
    while CURRENT.load(Ordering::Acquire) != me {
        std::thread::park_timeout(Duration::from_millis(2000));
        if start.elapsed() > Duration::from_secs(900) {
            let cur = CURRENT.load(Ordering::Acquire);
            let state = match KERNEL.try_lock() {
                Ok(g) => match g.as_ref() {
                    Some(k) => format!(
                        "steps={} tasks=[{}]",
                        k.steps,
                        k.tasks.iter().enumerate().map(|(i, t)| format!("t{i}:{:?}@{}", t.state, t.last_site)).collect::<Vec<_>>().join(" ")
                    ),
                    None => "no run".to_string(),
                },
                Err(_) => "kernel lock is held".to_string(),
            };
            eprintln!("HARNESS-ERROR: watchdog: task {me} waited 900 s for the baton; baton holder = {cur}; {state}");
            std::process::exit(2);
        }
    }
}

fn hand_to(next: usize, thread: Thread) {
    CURRENT.store(next, Ordering::Release);
    thread.unpark();
}

/// A point at which the current task cannot make progress until some other task runs (it is
/// spinning on a real lock held by a parked task): the scheduler must pick another runnable task.
pub fn point_blocked(site: &'static str) {
    let me = TASK.with(|t| t.get());
    if me == MAIN {
        std::thread::yield_now();
        return;
    }
    let handoff = {
        let mut g = lock();
        let Some(k) = g.as_mut() else { return };
        if k.tasks.is_empty() {
            return;
        }
        k.steps += 1;
        k.sched_hash = fnv_bytes(fnv_u64(k.sched_hash, me as u64), site.as_bytes());
        k.tasks[me].last_site = site;
        k.tasks[me].state = TaskState::Blocked;
        // PCT: a yielding task drops below everyone else, or two spinners would starve the lock holder
        k.pct_low -= 1;
        k.tasks[me].prio = k.pct_low;
        let next = k.pick_next(me);
        k.tasks[me].state = TaskState::Runnable;
        match next {
            Some(next) => {
                k.switches += 1;
                Some((next, k.tasks[next].thread.clone()))
            }
            None => {
                eprintln!("HARNESS-ERROR: task {me} spins at {site} but no other task is runnable");
                std::process::exit(2);
            }
        }
    };
    if let Some((next, th)) = handoff {
        hand_to(next, th);
        wait_for_baton(me);
    }
}

/// A scheduling point. No-op on threads that are not simulator tasks.
pub fn point(site: &'static str) {
    let me = TASK.with(|t| t.get());
    if me == MAIN {
        return;
    }
    let handoff = {
        let mut g = lock();
        let Some(k) = g.as_mut() else { return };
        if k.tasks.is_empty() {
            return;
        }
        k.steps += 1;
        k.sched_hash = fnv_bytes(fnv_u64(k.sched_hash, me as u64), site.as_bytes());
        k.tasks[me].last_site = site;
        let next = k.pick_next(me).unwrap_or(me);
        if next != me {
            k.switches += 1;
            let to_site = k.tasks[next].last_site;
            let pair = fnv_bytes(fnv_bytes(FNV_OFFSET, site.as_bytes()), to_site.as_bytes());
            k.switch_sig = k.switch_sig.wrapping_add(pair | 1);
            if TRACING.load(Ordering::Relaxed) {
                if std::env::var_os("WFSIM_LIVE").is_some() {
                    eprintln!("[trace]   -> switch t{me}@{site} => t{next}@{to_site}");
                }
                k.trace
                    .push(format!("  -> switch t{me}@{site} => t{next}@{to_site}"));
            }
            Some((next, k.tasks[next].thread.clone()))
        } else {
            None
        }
    };
    if let Some((next, th)) = handoff {
        hand_to(next, th);
        wait_for_baton(me);
    }
}

pub type TaskFn = Box<dyn FnOnce() + Send + 'static>;

/// Run the given closures as simulated tasks (real OS threads, one baton). Returns, per task,
/// `Err(panic message)` if it unwound to its root.
pub fn run_tasks(fns: Vec<TaskFn>) -> Vec<Result<(), String>> {
    assert!(current_task().is_none(), "run_tasks must be called from the worker main thread");
    let n = fns.len();
    if n == 0 {
        return Vec::new();
    }
    // scheduling strategy for this phase (swarm)
    let mode = choose_w(&[30, 25, 10, 10, 5, 20], "sched.mode");
    let sched = match mode {
        0 => Sched::Sticky(8),
        1 => Sched::Uniform,
        2 => Sched::Sticky(50),
        3 => Sched::Sticky(2),
        4 => Sched::RoundRobin,
        _ => Sched::Pct,
    };
    let mut prios = vec![0i64; n];
    let mut changes = Vec::new();
    if sched == Sched::Pct && n > 1 {
        for p in prios.iter_mut() {
            *p = 1 + choose(1000, "pct.prio") as i64;
        }
        let d = choose(4, "pct.d");
        for _ in 0..d {
            changes.push(1 + choose(200, "pct.at") as u64);
        }
    }
    let results: std::sync::Arc<Mutex<Vec<Option<Result<(), String>>>>> =
        std::sync::Arc::new(Mutex::new((0..n).map(|_| None).collect()));
    let mut handles = Vec::with_capacity(n);
    for (i, f) in fns.into_iter().enumerate() {
        let results = results.clone();
        let h = std::thread::Builder::new()
            .name(format!("sim-t{i}"))
            .stack_size(4 << 20)
            .spawn(move || {
                TASK.with(|t| t.set(i));
                wait_for_baton(i);
                let r = catch_unwind(AssertUnwindSafe(f));
                let r = r.map_err(|p| panic_message(&*p));
                results.lock().unwrap()[i] = Some(r);
                // finish: hand the baton on
                let next = {
                    let mut g = lock();
                    let k = g.as_mut().expect("run ended while task alive");
                    k.tasks[i].state = TaskState::Finished;
                    k.maybe_release_barrier();
                    k.sched_hash = fnv_bytes(fnv_u64(k.sched_hash, i as u64), b"<fin>");
                    match k.pick_next(i) {
                        Some(nx) => (nx, k.tasks[nx].thread.clone()),
                        None => (MAIN, k.main_thread.clone().unwrap()),
                    }
                };
                hand_to(next.0, next.1);
            })
            .expect("spawn");
        handles.push(h);
    }
    let first = {
        let mut g = lock();
        let k = g.as_mut().unwrap();
        k.sched = sched;
        k.pct_changes = changes;
        k.pct_low = 0;
        k.main_thread = Some(std::thread::current());
        k.tasks = handles
            .iter()
            .zip(prios.iter())
            .map(|(h, p)| TaskSlot {
                thread: h.thread().clone(),
                state: TaskState::Runnable,
                prio: *p,
                last_site: "<start>",
            })
            .collect();
        let nx = k.pick_next(MAIN).unwrap();
        (nx, k.tasks[nx].thread.clone())
    };
    hand_to(first.0, first.1);
    wait_for_baton(MAIN);
    for h in handles {
        let _ = h.join();
    }
    with(|k| k.tasks.clear());
    let mut r = results.lock().unwrap();
    r.drain(..).map(|x| x.unwrap_or(Ok(()))).collect()
}

pub fn panic_message(p: &(dyn std::any::Any + Send)) -> String {
    if let Some(s) = p.downcast_ref::<&str>() {
        s.to_string()
    } else if let Some(s) = p.downcast_ref::<String>() {
        s.clone()
    } else {
        "<non-string panic payload>".to_string()
    }
}

/// Pin the calling process to one CPU (cheap baton hand-over; see DESIGN §4.1).
pub fn pin_to_cpu(cpu: usize) {
    unsafe {
        let mut set: libc::cpu_set_t = std::mem::zeroed();
        libc::CPU_ZERO(&mut set);
        libc::CPU_SET(cpu % num_cpus(), &mut set);
        libc::sched_setaffinity(0, std::mem::size_of::<libc::cpu_set_t>(), &set);
    }
}

pub fn num_cpus() -> usize {
    std::thread::available_parallelism()
        .map(|n| n.get())
        .unwrap_or(1)
}
