//! Miri tier of C18: runs /verif/miri under `cargo +nightly miri run` over many interpreter seeds.

use crate::driver::ExtraResult;
use crate::kernel::Violation;
use serde_json::json;
use std::process::Command;
use std::time::Instant;

pub fn run_miri(seed: u64, default_seeds: u64, out: &mut ExtraResult) {
    let dir = std::env::var("VERIF_DIR").unwrap_or_else(|_| "/verif".into());
    let miri_dir = std::env::var("WF_MIRI_DIR").unwrap_or_else(|_| format!("{dir}/miri"));
    let repo = std::env::var("WF_REPO").unwrap_or_else(|_| "/repo".into());
    let miri_target = std::env::var("WF_MIRI_TARGET").unwrap_or_else(|_| format!("{dir}/target/miri"));
    let _ = std::fs::copy(format!("{repo}/Cargo.lock"), format!("{miri_dir}/Cargo.lock"));
    let nseeds: u64 = std::env::var("VERIF_MIRI_SEEDS").ok().and_then(|s| s.parse().ok()).unwrap_or(default_seeds);
    let t0 = Instant::now();
    let mut ok_runs = 0u64;
    let mut checked = 0u64;
    let mut ranges = Vec::new();
    // two invocations: context variant 0 at pre-emption rate 0.1 (long stretches per thread, wide race windows), context
    // variant 1 at 0.4 (threads alternate every few basic blocks: narrow check-then-act windows); quick splits its
    // seeds between the two, thorough runs the full count for each
    let per = if default_seeds >= 64 { nseeds } else { (nseeds / 2).max(1) };
    for variant in 0..2u64 {
        let rate = if variant == 0 { "0.1" } else { "0.4" };
        let lo = seed.wrapping_mul(1000) % 1_000_000 + variant * per;
        let hi = lo + per;
        ranges.push(format!("{lo}..{hi} (variant {variant}, pre-emption rate {rate})"));
        let flags = format!("-Zmiri-many-seeds={lo}..{hi} -Zmiri-preemption-rate={rate}");
        let res = Command::new("cargo")
            .args(["+nightly", "miri", "run", "--offline", "--", &variant.to_string()])
            .current_dir(&miri_dir)
            .env("MIRIFLAGS", &flags)
            .env("CARGO_TARGET_DIR", &miri_target)
            .env("CARGO_NET_OFFLINE", "true")
            .output();
        let res = match res {
            Ok(r) => r,
            Err(e) => {
                out.harness_error = Some(format!("cannot start cargo miri: {e}"));
                return;
            }
        };
        let text = format!("{}\n{}", String::from_utf8_lossy(&res.stdout), String::from_utf8_lossy(&res.stderr));
        for l in text.lines() {
            if let Some(n) = l.strip_prefix("MIRI-OK ") {
                ok_runs += 1;
                checked += n.trim().parse::<u64>().unwrap_or(0);
            }
        }
        if !res.status.success() {
            let failing_seed = text
                .lines()
                .find_map(|l| l.split("ailing seed: ").nth(1).and_then(|s| s.trim().parse::<u64>().ok()));
            let first_err: String = text.lines().filter(|l| l.starts_with("error") || l.contains("panicked at") || l.contains("Data race") || l.contains("Undefined Behavior")).take(4).collect::<Vec<_>>().join(" | ");
            if first_err.contains("unsupported operation") || first_err.contains("could not compile") || first_err.is_empty() {
                out.harness_error = Some(format!("miri could not run the workload: {}", if first_err.is_empty() { text.lines().rev().take(6).collect::<Vec<_>>().join(" | ") } else { first_err }));
                return;
            }
            let class = if first_err.contains("Data race") {
                "data-race"
            } else if first_err.contains("Undefined Behavior") {
                "undefined-behavior"
            } else {
                "assertion"
            };
            let seed_flag = match failing_seed {
                Some(s) => format!("-Zmiri-seed={s}"),
                None => format!("-Zmiri-many-seeds={lo}..{hi}"),
            };
            let cmd = format!("cd {miri_dir} && CARGO_TARGET_DIR={miri_target} MIRIFLAGS='{seed_flag} -Zmiri-preemption-rate={rate}' cargo +nightly miri run --offline -- {variant}; test $? -eq 0");
            out.violations.push((
                Violation::new("C18/miri", class, first_err.clone()),
                json!({"format": 1, "property": "C18", "engine": "miri", "miri_seed": failing_seed, "variant": variant, "cmd": cmd,
                       "signature": {"invariant": "C18/miri", "class": class, "detail": first_err},
                       "trace": text.lines().rev().take(40).collect::<Vec<_>>().into_iter().rev().collect::<Vec<_>>()}),
            ));
        }
    }
    out.coverage.insert(
        "miri".into(),
        json!({"interpreter_seeds": ranges, "runs_ok": ok_runs, "results_compared_with_sequential_baseline": checked,
               "flags": "-Zmiri-preemption-rate=0.1 / 0.4 (data-race detector and UB checks on; scalar substring-search path)",
               "workload": "/verif/miri: 3 threads, each compiling its own copy of 11 filters (regex, wildcard, contains, in $list, [*] any/all, memoised map-each call, int / byte / ip literal sets, plain comparisons of every primitive) after a barrier (first use of the SIMD latch raced), then executing shared filters on a shared Arc<ExecutionContext>",
               "wall_s": t0.elapsed().as_secs_f64()}),
    );
}
