//! Reduced C18 workload for `cargo +nightly miri run`: instruction-level interleavings and data-race
//! detection below the node granularity of wfsim's cooperative scheduler. Miri's seed fixes the schedule.
//! Prints "MIRI-OK <n>" when every concurrent result equals the sequential baseline.

use std::sync::{Arc, Barrier};
use wirefilter::{
    Array, ExecutionContext, FunctionArgs, LhsValue, Map, NeverList, AlwaysList, Scheme, SchemeBuilder, SimpleFunctionArgKind,
    SimpleFunctionDefinition, SimpleFunctionImpl, SimpleFunctionOptParam, SimpleFunctionParam, Type,
};

fn lower<'a>(args: FunctionArgs<'_, 'a>) -> Option<LhsValue<'a>> {
    match args.next()? {
        Ok(LhsValue::Bytes(b)) => Some(LhsValue::Bytes(b.to_ascii_lowercase().into())),
        _ => None,
    }
}

fn join<'a>(args: FunctionArgs<'_, 'a>) -> Option<LhsValue<'a>> {
    let mut out = Vec::new();
    for a in args {
        if let Ok(LhsValue::Bytes(b)) = a {
            out.extend_from_slice(&b);
        }
    }
    Some(LhsValue::Bytes(out.into()))
}

fn scheme() -> Scheme {
    let mut b = SchemeBuilder::new();
    b.add_field("host", Type::Bytes).unwrap();
    b.add_field("port", Type::Int).unwrap();
    b.add_optional_field("ua", Type::Bytes).unwrap();
    b.add_field("cookies", Type::Array(Type::Bytes.into())).unwrap();
    b.add_field("headers", Type::Map(Type::Bytes.into())).unwrap();
    b.add_field("ip", Type::Ip).unwrap();
    b.add_field("ssl", Type::Bool).unwrap();
    b.add_function(
        "lower",
        SimpleFunctionDefinition {
            params: vec![SimpleFunctionParam { arg_kind: SimpleFunctionArgKind::Field, val_type: Type::Bytes }],
            opt_params: vec![],
            return_type: Type::Bytes,
            implementation: SimpleFunctionImpl::new(lower),
        },
    )
    .unwrap();
    b.add_function(
        "join",
        SimpleFunctionDefinition {
            params: vec![SimpleFunctionParam { arg_kind: SimpleFunctionArgKind::Field, val_type: Type::Bytes }],
            opt_params: vec![SimpleFunctionOptParam { arg_kind: SimpleFunctionArgKind::Both, default_value: LhsValue::Bytes((&b"-"[..]).to_vec().into()) }],
            return_type: Type::Bytes,
            implementation: SimpleFunctionImpl::new(join),
        },
    )
    .unwrap();
    b.add_list(Type::Int, AlwaysList {}).unwrap();
    b.add_list(Type::Bytes, NeverList {}).unwrap();
    b.build()
}

const FILTERS: &[&str] = &[
    r#"host matches "^ex.*\.com$""#,
    r#"host wildcard "*.com" and ua strict wildcard "Moz*""#,
    r#"host contains "ample" or ua contains "zz""#,
    r#"port in $any or host in $none"#,
    r#"any(cookies[*] contains "two") and all(lower(cookies[*])[*] matches "^[a-z]+$")"#,
    r#"any(join(cookies[*], lower(host))[*] == "TWOexample.com")"#,
    r#"headers["k"] matches "v+" xor port in {80 443 8000..9000}"#,
    // literal sets and plain comparisons of every primitive (whatever they are compiled into is built in the threads)
    r#"host in {"example.com" "other.org"} or ua in {"curl" "Mozilla/5.0"}"#,
    r#"any(cookies[*] in {"TWO" "x"}) and lower(host) in {"example.com" "example.org"}"#,
    r#"ip in {10.0.0.0/8 ::1} or ip == 192.168.0.1 or host == "EXAMPLE.org""#,
    r#"port >= 22 and port < 1000 and not ssl"#,
];

fn ctx(scheme: &Scheme, variant: usize) -> ExecutionContext<'static> {
    let mut c = ExecutionContext::new(scheme);
    let host: &'static str = if variant % 2 == 0 { "example.com" } else { "EXAMPLE.org" };
    c.set_field_value(scheme.get_field("host").unwrap(), host).unwrap();
    c.set_field_value(scheme.get_field("port").unwrap(), if variant % 2 == 0 { 443 } else { 22 }).unwrap();
    if variant % 3 != 0 {
        c.set_field_value(scheme.get_field("ua").unwrap(), "Mozilla/5.0").unwrap();
    }
    c.set_field_value(scheme.get_field("cookies").unwrap(), Array::from_iter(["one", "TWO", "three"])).unwrap();
    let ip: std::net::IpAddr = if variant % 2 == 0 { "10.1.2.3".parse().unwrap() } else { "::1".parse().unwrap() };
    c.set_field_value(scheme.get_field("ip").unwrap(), ip).unwrap();
    c.set_field_value(scheme.get_field("ssl").unwrap(), variant % 3 == 0).unwrap();
    let mut m = wirefilter::TypedMap::new();
    m.insert(b"k".to_vec().into(), "vvv");
    let m: Map<'static> = m.into();
    c.set_field_value(scheme.get_field("headers").unwrap(), m).unwrap();
    c
}

fn main() {
    let variant: usize = std::env::args().nth(1).and_then(|s| s.parse().ok()).unwrap_or(0);
    let scheme = scheme();
    let threads = 3;
    // first use of the lazily latched SIMD switch is raced: compile inside the threads too
    let asts: Vec<_> = FILTERS.iter().map(|f| scheme.parse(f).unwrap()).collect();
    let shared_ctx = Arc::new(ctx(&scheme, variant));
    let barrier = Arc::new(Barrier::new(threads));
    let asts = Arc::new(asts);
    let mut handles = Vec::new();
    for t in 0..threads {
        let asts = asts.clone();
        let shared_ctx = shared_ctx.clone();
        let barrier = barrier.clone();
        let scheme = scheme.clone();
        handles.push(std::thread::spawn(move || {
            barrier.wait();
            // each thread compiles its own copy (races the latch on first use) ...
            let own: Vec<_> = asts.iter().map(|a| a.clone().compile()).collect();
            let own_ctx = ctx(&scheme, variant + t);
            let mut out = Vec::new();
            for round in 0..3 {
                for (i, f) in own.iter().enumerate() {
                    let c = if (i + round + t) % 2 == 0 { &*shared_ctx } else { &own_ctx };
                    out.push((i, (i + round + t) % 2 == 0, f.execute(c).unwrap()));
                }
            }
            (own, out)
        }));
    }
    let results: Vec<_> = handles.into_iter().map(|h| h.join().unwrap()).collect();
    // ... and one set of filters is then shared by all threads
    let shared_filters = Arc::new(results[0].0.iter().map(|_| ()).count());
    let _ = shared_filters;
    let filters: Arc<Vec<_>> = Arc::new(asts.iter().map(|a| a.clone().compile()).collect());
    let barrier = Arc::new(Barrier::new(threads));
    let mut handles = Vec::new();
    for _ in 0..threads {
        let filters = filters.clone();
        let shared_ctx = shared_ctx.clone();
        let barrier = barrier.clone();
        handles.push(std::thread::spawn(move || {
            barrier.wait();
            let mut out = Vec::new();
            for _ in 0..2 {
                for f in filters.iter() {
                    out.push(f.execute(&shared_ctx).unwrap());
                }
            }
            out
        }));
    }
    let shared_results: Vec<Vec<bool>> = handles.into_iter().map(|h| h.join().unwrap()).collect();
    // sequential baseline
    let mut checked = 0usize;
    let base: Vec<bool> = filters.iter().map(|f| f.execute(&shared_ctx).unwrap()).collect();
    for r in &shared_results {
        for (k, b) in r.iter().enumerate() {
            assert_eq!(*b, base[k % base.len()], "shared filter {k} differs from the sequential baseline");
            checked += 1;
        }
    }
    for (t, (_, out)) in results.iter().enumerate() {
        let own_ctx = ctx(&scheme, variant + t);
        for (i, shared, b) in out {
            let c = if *shared { &*shared_ctx } else { &own_ctx };
            assert_eq!(*b, filters[*i].execute(c).unwrap(), "thread {t} filter {i} differs from the sequential baseline");
            checked += 1;
        }
    }
    println!("MIRI-OK {checked}");
}
