#!/bin/bash
# tools/mutant.sh <patch> <ID> [tier]: apply a patch to /repo, run the check, revert. Prints the verdict.
set -u
patch="$(realpath "$1")"; id="$2"; tier="${3:-quick}"
cd /repo && git diff --quiet || { echo "repo dirty"; exit 2; }
git -C /repo apply "$patch" || { echo "patch does not apply"; exit 2; }
out=$(cd /verif && ./check "$id" "$tier" 2>&1); rc=$?
git -C /repo checkout -- .
echo "$out" | grep -E "VIOLATION|HARNESS|KNOWN" | cut -c1-300 | head -8
echo "$(basename "$patch") $id rc=$rc"
