#!/usr/bin/env python3
"""Regenerates /verif/MANIFEST.json. Edit CHECKS / NA here, never the JSON by hand."""
import json, subprocess
NA = {
 "C01":"pure function of (filter text, context values, nil_not_equal flag): no schedule, fault, clock, stream or stored state enters scalar comparison / boolean evaluation; a seeded generator plus oracle would be property-based testing, not simulation",
 "C02":"pure function: indexing, map-each and quantifier strategies are selected statically from the AST; nothing a simulator could vary",
 "C03":"pure function: argument handling, defaults and concat are pure; memoisation of extra arguments is decided at compile time from argument shape, not by any schedule or fault",
 "C04":"accept/reject of the type checker quantifies over programs and inputs only; no nondeterminism, I/O or history",
 "C05":"the parser consumes a complete &str: no stream to cut, no resumption or retry; a truncated filter is just another input string",
 "C06":"literal lexing is a pure function of the characters",
 "C07":"AST, JSON and hash are pure functions of the AST (FNV hasher is unkeyed and chunk-insensitive)",
 "C09":"RangeSet normalisation and lookup are pure",
 "C11":"regex / wildcard semantics and limits are pure functions of (pattern, value, settings)",
 "C12":"uses / uses_list are pure functions of the AST",
 "C13":"the nesting limit is a pure function of (limit, filter text)",
 "C16":"SchemeBuilder is a single-owner value with no I/O, sharing or callbacks; sequences of add_* calls are inputs (enumerating them is model checking, sampling them is property-based testing)",
}
TECH = "deterministic simulation with fault injection"
CHECKS = [
 ("C14","wfsim serde","fault_enumeration",
  "Seeded search over delivery faults for execution-context JSON: each run builds a context from a reference model, serializes it with a tape-chosen producer (incl. to_writer over a fault-injecting Write and the C API), damages or re-encodes the document in transit (EINTR, short I/O, hard error / EOF at a chosen offset, byte corruption, duplicated / reordered / re-encoded members, type swaps, renames, nesting changes, damaged $lists entries, deep type descriptors) and consumes it through one of six entry points into a fresh or pre-populated context; schemes include one 65..140 fields wide and one with names the engine knows in other roles, contexts are filled by tape-chosen routes (directly, through a borrow guard, refilled after clear, overwritten, cloned, taken); a reference reader decides accept/reject and the exact resulting state (a document that repeats a member carries no accept/reject expectation: refusal, last-wins and first-wins are all accepted), and deep well-typedness plus probe filters are checked after every outcome. Sampling over a very large space, not proof.",
  "DESIGN.md §5 C14",
  "trusted: serde_json / std::io adapters as transport; refjson.rs reference reader (dual encodings of Bytes and Map); bytes after a complete top-level value are outside the property",
  TECH+" (seeded fault search over Read/Write seams + structural document faults, reference model, tape replay/minimisation)"),
 ("C15","wfsim types","fault_enumeration",
  "Seeded search over delivery faults for scheme and type JSON: every run delivers a real serializer-produced document through one of five serde_json entry points over a fault-injecting Read seam (EINTR, short reads, hard I/O error / early EOF at a chosen offset) or after a structural transport fault (duplicated, reordered, re-encoded members; descriptor deepened to 33..130 layers) and compares the outcome with a reference model of field lists and of the packed type form (a scheme that was read back is then used: lookups by name, re-serialization, a context over it); schemes are also written out through the C API's own entry point, builder histories include refused registrations, names include long multi-byte ones and names the engine knows in other roles; the pure encoding identities ride along as an exhaustive sweep (all types up to 8 layers quick / 12 thorough). Sampling, not proof, for the transport part.",
  "DESIGN.md §5 C15",
  "trusted: serde_json and std::io adapters as transport, the 30-line model of the bit-packed form; hard faults are expected to yield Err iff the fault was observed by the reader",
  TECH+" (seeded fault search over a Read seam + structural document faults, reference model, tape replay/minimisation)"),
]
import os
extra = os.path.join(os.path.dirname(__file__), "manifest_checks.json")
if os.path.exists(extra):
    for c in json.load(open(extra)):
        CHECKS.append(tuple(c))
CHECKS.sort()
checks=[]
for pid,engine,cat,text,ref,note,tech in CHECKS:
    checks.append({"property_id":pid,"quick_cmd":f"./check {pid} quick","thorough_cmd":f"./check {pid} thorough",
      "evidence_file":f"/verif/evidence/{pid}.json","replay_cmd_template":"./check --replay {path}","engine":engine,
      "level_claimed":{"category":cat,"text":text,"design_ref":ref},"level_note":note,"technique":tech})
claimed={c[0] for c in CHECKS}
commits=subprocess.run(["git","-C","/repo","log","--format=%h %s"],capture_output=True,text=True).stdout.splitlines()
hook_commits=[l.split()[0] for l in commits if l.split(' ',1)[1].startswith("verif:")]
m={"version":1,"setup_cmd":"./check --setup",
 "hooks":{"guard":"cargo feature `verif` of wirefilter-engine",
  "enable":"wfsim depends on /repo/engine by path with features = [\"verif\"] (cargo feature unification turns it on for /repo/ffi's engine too); ./check rebuilds from /repo's working tree on every invocation",
  "baseline_off_cmd":"cd /repo && cargo test --workspace --no-fail-fast --offline",
  "source_commits":hook_commits,"add_only":True},
 "engines":[{"name":"wfsim","path":"/verif/sim","serves_properties":sorted(claimed),
   "kind_free_text":"deterministic simulator: choice tape (one seed = one run), one-baton scheduler over parked real OS threads, fault-injecting Read/Write/callback/caller-buffer seams, reference models, paired worker processes (SIMD latch, compile order) with cross-process and restart differentials, tape minimiser and replay (also for runs that kill their process); 16 pinned worker processes"},
  {"name":"wfmiri","path":"/verif/miri","serves_properties":["C18"],
   "kind_free_text":"reduced C18 workload (3 threads, shared and per-thread filters and contexts, first use of the lazy latch raced, every result compared with a sequential baseline) run under cargo +nightly miri with -Zmiri-many-seeds: deterministic interpreter schedules below compiled-node granularity, data-race and UB detection"}],
 "checks":checks,
 "not_applicable":[{"property_id":k,"reason":v} for k,v in sorted(NA.items()) if k not in claimed],
 "notes":"Technique: deterministic simulation with fault injection only. Properties whose truth depends on nothing but the caller's arguments are listed as not applicable (DESIGN.md §3). Exit codes: 0 held, 1 VIOLATION, 2 harness error. Genuine defects found are repaired by fix: commits in /repo or listed in known_findings.json (fixed entries suppress nothing)."}
json.dump(m,open("/verif/MANIFEST.json","w"),indent=1)
print("claimed:",sorted(claimed))
