#!/bin/bash
# tools/mutant_wt.sh <patch> <ID> [tier] : like mutant.sh, but applies the patch to a scratch worktree of /repo's HEAD
# (default /tmp/wf-mutwt, override with MUTWT) and runs the check against it through WF_REPO, so /repo is never touched
# and several of these can run side by side with different MUTWT values.
set -u
patch="$(realpath "$1")"; id="$2"; tier="${3:-quick}"
wt="${MUTWT:-/tmp/wf-mutwt}"
head=$(git -C /repo rev-parse HEAD)
if [ ! -d "$wt" ]; then git -C /repo worktree add -q --detach "$wt" "$head" || exit 2; fi
git -C "$wt" checkout -q -- . && git -C "$wt" checkout -q --detach "$head" || exit 2
git -C "$wt" apply "$patch" || { echo "patch does not apply"; exit 2; }
out=$(cd "$(dirname "$0")/.." && WF_REPO="$wt" ./check "$id" "$tier" 2>&1); rc=$?
git -C "$wt" checkout -q -- .
echo "$out" | grep -E "VIOLATION|HARNESS|KNOWN" | cut -c1-300 | head -8
echo "$(basename "$(dirname "$patch")")/$(basename "$patch") $id rc=$rc"
