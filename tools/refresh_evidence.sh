#!/bin/bash
# tools/refresh_evidence.sh [tier] : run every registered check on the clean /repo and validate evidence + manifest.
cd "$(dirname "$0")/.."
git -C /repo diff --quiet || { echo "/repo is dirty"; exit 2; }
tier="${1:-quick}"; rc=0
for id in C08 C10 C14 C15 C17 C18 C19 C20; do
  ./check $id $tier 2>&1 | grep -E "^wfsim: C|VIOLATION|HARNESS" | cut -c1-220
  [ "${PIPESTATUS[0]}" -eq 0 ] || rc=1
done
python3-vt - <<'PY' || rc=1
import json,jsonschema,glob,sys
es=json.load(open('/root/.vp/EVIDENCE.schema.json')); ms=json.load(open('/root/.vp/MANIFEST.schema.json'))
m=json.load(open('/verif/MANIFEST.json')); jsonschema.validate(m,ms)
for c in m['checks']:
    e=json.load(open(c['evidence_file'])); jsonschema.validate(e,es)
    assert e['violations']==0 and e['coverage']['evaluations']>0, c['property_id']
    print(c['property_id'], e['tier'], e['coverage']['evaluations'], 'evaluations,', e['coverage']['distinct_nontrivial'], 'distinct non-trivial,', round(e['wall_s'],1),'s')
print('manifest + evidence valid')
PY
exit $rc
