#!/bin/bash
# tools/confirm_seeded.sh <worktree> : confirm a seeded change in its scratch worktree:
# suite green with the change (demo moved aside), demo fails with it, demo passes without it.
wt="$1"; cd "$wt" || exit 2
demo=$(git status --porcelain | grep -E '^\?\? .*tests/' | awk '{print $2}' | head -1)
[ -d "$demo" ] && demo=$(ls $demo*.rs | head -1)
echo "worktree=$wt demo=$demo"
pkg=wirefilter-engine; case "$demo" in ffi/*) pkg=wirefilter-ffi;; esac
name=$(basename "$demo" .rs)
mkdir -p /tmp/seed-aside; mv "$demo" /tmp/seed-aside/$(basename $wt)-$name.rs
suite=$(cargo test --workspace --no-fail-fast --offline 2>&1 | grep -E "^test result|FAILED|^error" | grep -v " 0 passed" | tr '\n' ';')
echo "suite-with-change: $suite"
mv /tmp/seed-aside/$(basename $wt)-$name.rs "$demo"
with=$(cargo test -p $pkg --test $name --offline 2>&1 | grep -E "^test result" | tr '\n' ';')
echo "demo-with-change: $with"
git apply -R SEEDED/patch.diff || echo "REVERT FAILED"
without=$(cargo test -p $pkg --test $name --offline 2>&1 | grep -E "^test result" | tr '\n' ';')
echo "demo-without-change: $without"
git apply SEEDED/patch.diff
