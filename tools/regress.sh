#!/bin/bash
# tools/regress.sh : sensitivity regression. Every patch in mutants/ and seeded/ must make its property's quick
# check exit 1; every patch in legit/ (a change the property allows) must leave it at exit 0; every quick check must
# exit 0 on the clean tree. Prints one line per patch.
cd "$(dirname "$0")/.."
fail=0
# REGRESS_PART=i/n runs every n-th patch starting with the i-th (1-based), so that parts can run side by side
part_i=${REGRESS_PART%%/*}; part_n=${REGRESS_PART##*/}; [ -n "${REGRESS_PART:-}" ] || { part_i=1; part_n=1; }
k=0
for p in mutants/*.patch seeded/*/patch.diff; do
  k=$((k+1)); [ $(( (k - part_i) % part_n )) -eq 0 ] || continue
  case "$p" in mutants/*) id=$(basename "$p" | cut -c1-3);; *) id=$(basename "$(dirname "$p")" | cut -c1-3);; esac
  # a seeded change recorded as "missed by its own property's check, caught by a neighbour's" names that neighbour
  [ -f "$(dirname "$p")/check_with" ] && id=$(cat "$(dirname "$p")/check_with")
  [ "$(basename $p)" = "C18-m3-racy-latch.patch" ] && extra="VERIF_MIRI=1 VERIF_MIRI_SEEDS=8" || extra=""
  out=$(env $extra VERIF_MIN_REPLAYS=${REGRESS_MIN_REPLAYS:-0} VERIF_SCALE=${REGRESS_SCALE:-1} tools/mutant_wt.sh "$p" "$id" 2>&1 | tail -1)
  case "$out" in *rc=1) echo "caught  $p";; *) echo "MISSED  $p ($out)"; fail=1;; esac
done
# changes the properties allow (legit/<ID>-*.diff): the check of <ID> must stay quiet (exit 0) on each
for p in legit/*.diff; do
  k=$((k+1)); [ $(( (k - part_i) % part_n )) -eq 0 ] || continue
  id=$(basename "$p" | cut -c1-3)
  out=$(VERIF_MIN_REPLAYS=0 VERIF_SCALE=${REGRESS_SCALE:-1} tools/mutant_wt.sh "$p" "$id" 2>&1 | tail -1)
  case "$out" in *rc=0) echo "quiet   $p";; *) echo "ALARM   $p ($out)"; fail=1;; esac
done
# scratch worktree and its build output are no longer needed
wt="${MUTWT:-/tmp/wf-mutwt}"; tag=$(echo "$wt" | md5sum | cut -c1-8)
git -C /repo worktree remove --force "$wt" 2>/dev/null; rm -rf "target/alt-$tag"
[ "${REGRESS_SKIP_CLEAN:-0}" = 1 ] && exit $fail
for id in C08 C10 C14 C15 C17 C18 C19 C20; do
  ./check $id quick >/dev/null 2>&1; rc=$?
  [ $rc -eq 0 ] && echo "clean   $id" || { echo "ALARM   $id rc=$rc"; fail=1; }
done
exit $fail
