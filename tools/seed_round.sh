#!/bin/bash
# tools/seed_round.sh <N> : prepare round N of seeded changes: one scratch worktree of /repo per claimed property under
# /tmp/seed<N>-<ID>, the property text next to it, and the prompt a fresh sub-agent gets (which lists earlier rounds' mechanisms
# from seeded/*/meta.json so that they are not repeated). Nothing from /verif is shown to the sub-agent.
N="$1"; [ -n "$N" ] || exit 2
cd /repo && for id in C08 C10 C14 C15 C17 C18 C19 C20; do git worktree add -q --detach /tmp/seed${N}-$id HEAD && echo -n "$id "; done; echo; N=$N python3 - <<'EOF'
import json,glob,os
N=os.environ['N']
props={}
for l in open('/verif/properties.jsonl'):
    p=json.loads(l)
    if p['id'] in ('C08','C10','C14','C15','C17','C18','C19','C20'):
        t={k:p[k] for k in ('id','title','statement','quantifier','why_tests_cant','anchors')}
        open(f"/tmp/seed{N}-{p['id']}.property.json",'w').write(json.dumps(t,indent=1))
done={}
for d in sorted(glob.glob('/verif/seeded/*/meta.json')):
    m=json.load(open(d)); done.setdefault(m['property'],[]).append(m['change'])
extra={
 'C08':"",
 'C10':" This machine has AVX2; the environment variable WIREFILTER_USE_AVX2=0 (set before the process starts) selects the scalar path.",
 'C14':" serde_json is a dev-dependency of the engine crate.",
 'C15':" The ffi crate (C API) is also usable as an rlib from a Rust test (ffi/tests/seeded_demo.rs).",
 'C17':" You need a small stateful ListDefinition + ListMatcher for the demo; see engine/src/list_matcher.rs and the tests in engine/src/ast/field_expr.rs.",
 'C18':" The Filter type must stay Send + Sync (there is a compile-time test). The wrong behaviour must need a particular interleaving of threads, a particular order of executions/compilations, or a particular per-thread or per-process history - never plain single-threaded use of one filter on one context in a fresh process. Force interleavings deterministically in the demo if you can (a user function or list matcher that blocks on a barrier/channel mid-execution), otherwise loop until it fails reliably.",
 'C19':" The code is mainly engine/src/panic.rs. Keep every line guarded by #[cfg(feature = \"verif\")] exactly as it is (inert instrumentation), including the cooperative wait loop before the installation lock. The demo must run in its own process (integration test), use fallback mode Continue only (never Abort), and force thread interleavings deterministically with barriers/channels.",
 'C20':" The ffi crate is cdylib + rlib: call the exported wirefilter_ffi::wirefilter_* functions directly from ffi/tests/seeded_demo.rs (see mod ffi_test in ffi/src/lib.rs). The C tests in ffi/tests/ctests must stay green too.",
}
for pid,lst in done.items():
    bullets="\n".join(f"  - {x}" for x in lst)
    prompt=f"""You are helping to evaluate a verification effort by producing a *realistic, hard-to-notice regression* in a Rust codebase. Work ONLY inside the scratch git worktree /tmp/seed{N}-{pid} (a checkout of the cloudflare/wirefilter repository: Rust workspace with `engine/` (crate wirefilter-engine, lib name `wirefilter`), `ffi/` (crate wirefilter-ffi, the C API), `wasm/`). Do NOT read or touch /repo, /verif or any other /tmp/seed* directory. No network; use `--offline` with cargo (`cd /tmp/seed{N}-{pid} && cargo test --workspace --no-fail-fast --offline`). The first build takes about a minute.{extra[pid]}

The semantic property to break is in /tmp/seed{N}-{pid}.property.json (read it fully: statement, quantifier, why_tests_cant, anchors).

Make ONE small change to library code (engine/ and/or ffi/, never to tests; leave lines guarded by `#[cfg(feature = "verif")]` exactly as they are) that
 (1) compiles and keeps the ENTIRE existing test suite green (`cargo test --workspace --no-fail-fast --offline`, run it more than once if your change involves randomness or threads);
 (2) breaks the property, but only under SPECIFIC circumstances: a particular multi-step history, an unusual but legal input shape, a fault / unwind / I/O condition at a particular point, a particular thread interleaving or order of events, state that accumulates over many operations, or two cooperating sites that each look fine alone. It must look like something a plausible refactoring, optimisation or "robustness" tweak could introduce, and ordinary use must not expose it at once;
 (3) comes with a demo integration test that FAILS with the change and PASSES without it (verify both directions with `git apply -R` / `git apply`).

Earlier contributors already produced the following changes for this property. Do NOT repeat any of them or a close variant; study the code (including parts of it nobody touched yet) and find a DIFFERENT mechanism in a different place - surprise us:
{bullets}

Deliverables under /tmp/seed{N}-{pid}/SEEDED/: patch.diff (`git diff` of the library change only, applies with `git apply` at the repository root), demo.rs (copy of the demo test; say in README where it goes and how to run it), README.md (which clause breaks, exactly what is needed for it to manifest, why the existing tests miss it, the commands you ran and their results: suite green with the change; demo fails with it and passes without it). Leave the change applied and the demo in place; commit nothing; keep the change small. Reply with a 5-line summary."""
    open(f'/tmp/seed{N}-{pid}.prompt.txt','w').write(prompt)
print({k:len(v) for k,v in done.items()})
EOF