#!/bin/bash
# Determinism self-check: every property twice at different worker counts (and in different processes);
# the commutative event-log digests must be identical. Usage: tools/selfcheck.sh [scale]
cd "$(dirname "$0")/.."
scale="${1:-0.2}"
rc=0
for id in C08 C10 C14 C15 C17 C18 C19 C20; do
  a=$(VERIF_SCALE=$scale VERIF_WORKERS=16 ./check $id quick 2>&1 | grep -o "digest [0-9a-f]*")
  b=$(VERIF_SCALE=$scale VERIF_WORKERS=6 ./check $id quick 2>&1 | grep -o "digest [0-9a-f]*")
  if [ -n "$a" ] && [ "$a" = "$b" ]; then echo "$id deterministic ($a at 16 and 6 workers)"; else echo "$id NON-DETERMINISTIC: '$a' vs '$b'"; rc=1; fi
done
exit $rc
